import SpecterModel.C49.Model
/-!
# C49 — Certificate storage over the DHT behaves like a file store with exclusive locks

File store: `load_last_store` (after ANY history a load returns the value of the last store not
followed by a delete), `deleted_not_exists`, `list_children_once` (non-recursive listing = each
immediate child exactly once — since the repair of acme/storage.go this holds for EVERY key set, no
`PathPrefixFree` hypothesis), `list_recursive_exact`.

Locks (lease model with explicit time): `inv_reachable` ⇒ `holders_exclusive` (at most one instance
validly holds), `lock_exclusive` (nobody else obtains it while validly held), `unlock_releases`,
`expiry_frees`, `renew_keeps` (renewing any time before expiry — in particular every ttl/4 — keeps the lock).
-/
namespace Specter.C49

/-! ## strings -/

theorem trimPrefix_append (p s : Path) : trimPrefix p (p ++ s) = s := by
  unfold trimPrefix; simp

theorem kvKeyName_inj {a b : Path} : kvKeyName a = kvKeyName b ↔ a = b := by
  unfold kvKeyName; simp

theorem dirPrefix_eq (p : Path) : dirPrefix p = kvKeyPrefix ++ userDir p := by
  have hk : kvKeyPrefix.getLast? = some '/' := by decide
  have hl : (kvKeyName p).getLast? = p.getLast?.or (some '/') := by
    unfold kvKeyName; rw [List.getLast?_append, hk]
  unfold dirPrefix endsWithSlash userDir
  simp only [hl]
  cases hp : p.getLast? with
  | none =>
    have : p = [] := by simpa using hp
    simp [this, kvKeyName]
  | some c =>
    have hne : p ≠ [] := by intro h; simp [h] at hp
    by_cases hc : c = '/'
    · subst hc; simp [kvKeyName]
    · simp [hc, hne, kvKeyName, List.append_assoc]

theorem takeWhile_seg (seg rest : Path) (hs : '/' ∉ seg) (hr : rest = [] ∨ ∃ r, rest = '/' :: r) :
    (seg ++ rest).takeWhile (· != '/') = seg := by
  rw [List.takeWhile_append_of_pos]
  · rcases hr with h | ⟨r, h⟩ <;> subst h <;> simp
  · intro a ha; simp; intro h; exact hs (h ▸ ha)

theorem split_seg (sub : Path) :
    ∃ rest, sub = sub.takeWhile (· != '/') ++ rest ∧ (rest = [] ∨ ∃ r, rest = '/' :: r) ∧
      '/' ∉ sub.takeWhile (· != '/') := by
  induction sub with
  | nil => exact ⟨[], by simp⟩
  | cons a t ih =>
    by_cases ha : a = '/'
    · subst ha; exact ⟨'/' :: t, by simp⟩
    · obtain ⟨rest, h1, h2, h3⟩ := ih
      refine ⟨rest, ?_, h2, ?_⟩
      · simp [ha]; exact h1
      · simp [ha]; exact ⟨fun h => ha h.symm, h3⟩

/-- what the loop body computes: for a key below `pfx`, `pfx` + first segment of the remainder -/
theorem childOf_eq (pfx k : Path) :
    childOf pfx k = if pfx.isPrefixOf k then
      some (trimPrefix kvKeyPrefix (pfx ++ (k.drop pfx.length).takeWhile (· != '/'))) else none := by
  unfold childOf
  by_cases hp : pfx.isPrefixOf k = true
  · simp only [hp, if_true]
    have hk : k = pfx ++ k.drop pfx.length :=
      (List.prefix_iff_eq_append.mp (List.isPrefixOf_iff_prefix.mp hp)).symm
    have ht : trimPrefix pfx k = k.drop pfx.length := by unfold trimPrefix; simp [hp]
    rw [ht]
    generalize k.drop pfx.length = sub at hk
    by_cases hm : '/' ∈ sub
    · simp [hm]
    · have : sub.takeWhile (· != '/') = sub := by
        have := takeWhile_seg sub [] hm (Or.inl rfl); simpa using this
      simp only [List.contains_iff_mem, hm, if_false, this, ← hk]
  · simp [hp]

/-! ## non-recursive listing -/

theorem mem_listLoop (pfx : Path) (ks found : List Path) (c : Path) :
    c ∈ listLoop pfx ks found ↔ c ∈ found ∨ ∃ k ∈ ks, childOf pfx k = some c := by
  induction ks generalizing found with
  | nil => simp [listLoop]
  | cons k ks ih =>
    unfold listLoop
    cases hk : childOf pfx k with
    | none => simp [ih, hk]
    | some d =>
      by_cases hd : d ∈ found
      · simp only [hd, if_true, ih]
        constructor
        · rintro (h | ⟨k', hk', h⟩)
          · exact Or.inl h
          · exact Or.inr ⟨k', List.mem_cons_of_mem _ hk', h⟩
        · rintro (h | ⟨k', hk', h⟩)
          · exact Or.inl h
          · rcases List.mem_cons.mp hk' with rfl | hk'
            · rw [hk] at h; cases h; exact Or.inl hd
            · exact Or.inr ⟨k', hk', h⟩
      · simp only [hd, if_false, ih, List.mem_append, List.mem_singleton]
        constructor
        · rintro ((h | rfl) | ⟨k', hk', h⟩)
          · exact Or.inl h
          · exact Or.inr ⟨k, List.mem_cons_self, hk⟩
          · exact Or.inr ⟨k', List.mem_cons_of_mem _ hk', h⟩
        · rintro (h | ⟨k', hk', h⟩)
          · exact Or.inl (Or.inl h)
          · rcases List.mem_cons.mp hk' with rfl | hk'
            · rw [hk] at h; cases h; exact Or.inl (Or.inr rfl)
            · exact Or.inr ⟨k', hk', h⟩

theorem nodup_listLoop (pfx : Path) (ks found : List Path) (h : found.Nodup) :
    (listLoop pfx ks found).Nodup := by
  induction ks generalizing found with
  | nil => simpa [listLoop]
  | cons k ks ih =>
    unfold listLoop
    cases hk : childOf pfx k with
    | none => exact ih found h
    | some d =>
      by_cases hd : d ∈ found
      · simp only [hd, if_true]; exact ih found h
      · simp only [hd, if_false]
        apply ih
        rw [List.nodup_append]
        refine ⟨h, by simp, ?_⟩
        intro a ha b hb; simp at hb; subst hb; intro e; exact hd (e ▸ ha)

/-- SPEC: `c` is an immediate child of directory `p` w.r.t. the stored (KV-level) keys `keys`:
`c = dir(p) ++ seg` for one path segment `seg`, and some stored key is `c` itself or lies below `c/`. -/
def IsChild (keys : List Path) (p c : Path) : Prop :=
  ∃ seg, c = userDir p ++ seg ∧ '/' ∉ seg ∧
    ∃ k ∈ keys, k = kvKeyName c ∨ (kvKeyName c ++ ['/']) <+: k

theorem childOf_iff (p k c : Path) :
    childOf (dirPrefix p) k = some c ↔
      ∃ seg, c = userDir p ++ seg ∧ '/' ∉ seg ∧ (k = kvKeyName c ∨ (kvKeyName c ++ ['/']) <+: k) := by
  rw [childOf_eq, dirPrefix_eq]
  constructor
  · intro h
    by_cases hp : (kvKeyPrefix ++ userDir p).isPrefixOf k = true
    · simp only [hp, if_true] at h
      have hk : k = (kvKeyPrefix ++ userDir p) ++ k.drop (kvKeyPrefix ++ userDir p).length :=
        (List.prefix_iff_eq_append.mp (List.isPrefixOf_iff_prefix.mp hp)).symm
      generalize k.drop (kvKeyPrefix ++ userDir p).length = sub at hk h
      obtain ⟨rest, h1, h2, h3⟩ := split_seg sub
      rw [List.append_assoc, trimPrefix_append] at h
      cases h
      refine ⟨_, rfl, h3, ?_⟩
      rcases h2 with rfl | ⟨r, rfl⟩
      · left
        have h1' : sub = sub.takeWhile (· != '/') := by simpa using h1
        rw [hk]; simp only [kvKeyName, List.append_assoc]
        exact congrArg (fun x => kvKeyPrefix ++ (userDir p ++ x)) h1'
      · right; rw [hk]; refine ⟨r, ?_⟩
        conv => rhs; rw [h1]
        simp [kvKeyName, List.append_assoc]
    · simp [hp] at h
  · rintro ⟨seg, rfl, hs, hk⟩
    have hshape : ∃ rest, k = (kvKeyPrefix ++ userDir p) ++ (seg ++ rest) ∧ (rest = [] ∨ ∃ r, rest = '/' :: r) := by
      rcases hk with rfl | ⟨r, rfl⟩
      · exact ⟨[], by simp [kvKeyName, List.append_assoc], Or.inl rfl⟩
      · exact ⟨'/' :: r, by simp [kvKeyName, List.append_assoc], Or.inr ⟨r, rfl⟩⟩
    obtain ⟨rest, rfl, hr⟩ := hshape
    have hp : (kvKeyPrefix ++ userDir p).isPrefixOf ((kvKeyPrefix ++ userDir p) ++ (seg ++ rest)) = true := by simp
    rw [if_pos hp, List.drop_left, takeWhile_seg seg rest hs hr, List.append_assoc, trimPrefix_append]

/-- **C49 (listing).** For EVERY list of stored keys (whatever order `ListKeys` returns them in, with or
without sibling keys that merely share the string prefix), the non-recursive listing contains no entry
twice and contains exactly the immediate children of `p`. -/
theorem list_children_once (keys : List Path) (p : Path) :
    (listNonRec keys p).Nodup ∧ ∀ c, c ∈ listNonRec keys p ↔ IsChild keys p c := by
  refine ⟨nodup_listLoop _ _ _ List.nodup_nil, fun c => ?_⟩
  unfold listNonRec IsChild
  rw [mem_listLoop]
  simp only [List.not_mem_nil, false_or, childOf_iff]
  constructor
  · rintro ⟨k, hk, seg, h1, h2, h3⟩; exact ⟨seg, h1, h2, k, hk, h3⟩
  · rintro ⟨seg, h1, h2, k, hk, h3⟩; exact ⟨k, hk, seg, h1, h2, h3⟩

/-! ## the KV and histories -/

theorem get_put (kv : Kv) (k k' : Path) (v : Option Bytes) :
    (kv.put k v).get k' = if k' = k then v else kv.get k' := by
  unfold Kv.put Kv.get
  by_cases h : k' = k
  · subst h; simp [List.lookup_cons]
  · have hb : (k' == k) = false := by simpa using h
    simp only [List.lookup_cons, hb, if_neg h]
    congr 1
    induction kv with
    | nil => rfl
    | cons e t ih =>
      obtain ⟨ek, ev⟩ := e
      by_cases he : ek = k
      · subst he; simp [List.filter_cons, List.lookup_cons, hb, ih]
      · have : (ek != k) = true := by simpa using he
        simp only [List.filter_cons, this, if_true, List.lookup_cons]
        cases (k' == ek) <;> simp [ih]

theorem get_runRev (kv0 : Kv) (h : List Op) (k : Path) :
    (runRev kv0 h).get (kvKeyName k) = lastWrite kv0 h k := by
  induction h with
  | nil => rfl
  | cons op h ih =>
    cases op <;> simp only [runRev, step, lastWrite, get_put, kvKeyName_inj, ih]

/-- **C49 (load).** After ANY history of store/load/delete/exists/stat/list operations, loading `k`
returns the value of the last store to `k` that no later delete removed, and "does not exist" otherwise. -/
theorem load_last_store (kv0 : Kv) (h : List Op) (k : Path) :
    (step (runRev kv0 h) (.load k)).2 =
      match lastWrite kv0 h k with | some v => .val v | none => .notExist := by
  show (match (runRev kv0 h).get (kvKeyName k) with | some v => Out.val v | none => Out.notExist) = _
  rw [get_runRev]

theorem load_after_store (kv0 : Kv) (h : List Op) (k : Path) (v : Bytes) :
    (step (runRev kv0 (.store k v :: h)) (.load k)).2 = .val v := by
  rw [load_last_store]; simp [lastWrite]

/-- **C49 (delete).** A deleted key does not exist: `Exists` is false, `Load` and `Stat` say not-exist,
until it is stored again. -/
theorem deleted_not_exists (kv0 : Kv) (h : List Op) (k : Path) :
    let s := runRev kv0 (.delete k :: h)
    (step s (.exists_ k)).2 = .bool false ∧ (step s (.load k)).2 = .notExist ∧
    (step s (.stat k)).2 = .notExist := by
  simp only [step, get_runRev, lastWrite, if_true]; simp

theorem lookup_some_mem (kv : Kv) (k : Path) (v : Option Bytes) (h : kv.lookup k = some v) :
    k ∈ kv.map (·.1) := by
  induction kv with
  | nil => simp at h
  | cons e t ih =>
    obtain ⟨ek, ev⟩ := e
    by_cases hk : k = ek
    · simp [hk]
    · have hb : (k == ek) = false := by simpa using hk
      simp only [List.lookup_cons, hb] at h
      simp [ih h]

theorem mem_listSimple (kv : Kv) (pfx k : Path) :
    k ∈ kv.listSimple pfx ↔ pfx <+: k ∧ ∃ a t, kv.get k = some (a :: t) := by
  unfold Kv.listSimple
  simp only [List.mem_filter, Bool.and_eq_true, List.isPrefixOf_iff_prefix]
  constructor
  · rintro ⟨_, hp, hn⟩
    refine ⟨hp, ?_⟩
    cases hg : kv.get k with
    | none => simp [hg, nonEmpty] at hn
    | some v => cases v with
      | nil => simp [hg, nonEmpty] at hn
      | cons a t => exact ⟨a, t, rfl⟩
  · rintro ⟨hp, a, t, hg⟩
    refine ⟨?_, hp, by simp [hg, nonEmpty]⟩
    unfold Kv.get at hg
    cases hl : kv.lookup k with
    | none => simp [hl] at hg
    | some v => exact lookup_some_mem kv k v hl

/-- **C49 (listing, end to end).** After any history starting from the empty store, the non-recursive
listing of `p` has no duplicates and consists exactly of the immediate children of `p` among the keys
whose last stored value is non-empty and not deleted. -/
theorem list_after_history (h : List Op) (p c : Path) :
    (list (runRev [] h) p false).Nodup ∧
    (c ∈ list (runRev [] h) p false ↔
      ∃ seg, c = userDir p ++ seg ∧ '/' ∉ seg ∧
        ∃ u a t, lastWrite [] h u = some (a :: t) ∧ (u = c ∨ (c ++ ['/']) <+: u)) := by
  unfold list
  simp only [Bool.false_eq_true, if_false]
  refine ⟨(list_children_once _ p).1, ?_⟩
  rw [(list_children_once _ p).2 c]
  unfold IsChild
  constructor
  · rintro ⟨seg, rfl, hs, k, hk, hc⟩
    rw [mem_listSimple _ _ _] at hk
    obtain ⟨_, a, t, hg⟩ := hk
    have hpre : ∃ u, k = kvKeyName u ∧ (u = userDir p ++ seg ∨ (userDir p ++ seg ++ ['/']) <+: u) := by
      rcases hc with rfl | ⟨r, rfl⟩
      · exact ⟨_, rfl, Or.inl rfl⟩
      · exact ⟨userDir p ++ seg ++ ['/'] ++ r, by simp [kvKeyName, List.append_assoc], Or.inr ⟨r, rfl⟩⟩
    obtain ⟨u, rfl, hu⟩ := hpre
    rw [get_runRev] at hg
    exact ⟨seg, rfl, hs, u, a, t, hg, hu⟩
  · rintro ⟨seg, rfl, hs, u, a, t, hg, hu⟩
    refine ⟨seg, rfl, hs, kvKeyName u, ?_, ?_⟩
    · rw [mem_listSimple _ _ _, get_runRev]
      refine ⟨?_, a, t, hg⟩
      have hpu : p <+: u := by
        have hd : p <+: userDir p := by unfold userDir; split <;> simp
        rcases hu with rfl | hu
        · exact hd.trans (List.prefix_append _ _)
        · exact hd.trans ((List.prefix_append _ _).trans ((List.prefix_append _ _).trans hu))
      obtain ⟨r, rfl⟩ := hpu
      exact ⟨r, by simp [kvKeyName, List.append_assoc]⟩
    · rcases hu with rfl | ⟨r, rfl⟩
      · exact Or.inl rfl
      · exact Or.inr ⟨r, by simp [kvKeyName, List.append_assoc]⟩

/-- recursive listing, as coded: every stored non-empty key having `p` as a STRING prefix, once
(so `a/bc/q` is listed under `a/b`; the property statement is silent about recursive listing). -/
theorem list_recursive_exact (h : List Op) (p c : Path) :
    c ∈ list (runRev [] h) p true ↔ p <+: c ∧ ∃ a t, lastWrite [] h c = some (a :: t) := by
  unfold list listRec
  simp only [if_true, List.mem_map]
  constructor
  · rintro ⟨k, hk, rfl⟩
    rw [mem_listSimple _ _ _] at hk
    obtain ⟨⟨r, rfl⟩, a, t, hg⟩ := hk
    have : kvKeyName p ++ r = kvKeyName (p ++ r) := by simp [kvKeyName]
    rw [this, get_runRev] at hg
    rw [this]; unfold kvKeyName; rw [trimPrefix_append]
    exact ⟨⟨r, rfl⟩, a, t, hg⟩
  · rintro ⟨⟨r, rfl⟩, a, t, hg⟩
    refine ⟨kvKeyName (p ++ r), ?_, by unfold kvKeyName; rw [trimPrefix_append]⟩
    rw [mem_listSimple _ _ _, get_runRev]
    exact ⟨⟨r, by simp [kvKeyName]⟩, a, t, hg⟩

/-! ## locks -/

/-- instance `i` validly holds the lock: its token is the current lease and the lease has not expired -/
def ValidHolds (s : LockSt) (i : Nat) : Prop := ∃ tok, s.holder i = some tok ∧ tok = s.lease ∧ s.now < tok

/-- invariant: every remembered token is either already expired, or it is the current lease and no
other instance remembers the same token -/
def Inv (s : LockSt) : Prop :=
  ∀ i c, s.holder i = some c → c ≤ s.now ∨ (c = s.lease ∧ ∀ j d, s.holder j = some d → d = s.lease → j = i)

theorem lookup_setHolder (hs : List (Nat × Nat)) (i t j : Nat) :
    (setHolder hs i t).lookup j = if j = i then some t else hs.lookup j := by
  unfold setHolder
  by_cases h : j = i
  · subst h; simp [List.lookup_cons]
  · have hb : (j == i) = false := by simpa using h
    simp only [List.lookup_cons, hb, if_neg h]
    induction hs with
    | nil => rfl
    | cons e t' ih =>
      obtain ⟨a, b⟩ := e
      by_cases he : a = i
      · subst he; simp [List.filter_cons, List.lookup_cons, hb, ih]
      · have : (a != i) = true := by simpa using he
        simp only [List.filter_cons, this, if_true, List.lookup_cons]
        cases (j == a) <;> simp [ih]

theorem lookup_dropHolder (hs : List (Nat × Nat)) (i j : Nat) :
    (dropHolder hs i).lookup j = if j = i then none else hs.lookup j := by
  unfold dropHolder
  induction hs with
  | nil => simp
  | cons e t' ih =>
    obtain ⟨a, b⟩ := e
    by_cases he : a = i
    · subst he
      by_cases h : j = a
      · subst h; simp [List.filter_cons, ih]
      · have hb : (j == a) = false := by simpa using h
        simp [List.filter_cons, List.lookup_cons, hb, ih, h]
    · have : (a != i) = true := by simpa using he
      simp only [List.filter_cons, this, if_true, List.lookup_cons]
      by_cases h : j = a
      · subst h; simp [he]
      · have hb : (j == a) = false := by simpa using h
        simp [hb, ih]

theorem durationGuard_pos {ttl td : Nat} (h : durationGuard ttl = some td) : 0 < td := by
  unfold durationGuard second at h
  simp only at h
  split at h
  · cases h
  · cases h; omega

/-! equations of `lstep`, one per branch (the proofs below only rewrite with these) -/
section eqs
variable (s : LockSt) (i ttl td tok prev d : Nat)

theorem lstep_tick : lstep s (.tick d) = ({ s with now := s.now + d }, .none) := rfl

theorem lstep_lockTry_invalid (hg : durationGuard ttl = none) :
    lstep s (.lockTry i ttl) = (s, .invalidTTL) := by show doLockTry s i ttl = _; unfold doLockTry; simp only [hg]

theorem lstep_lockTry_conflict (hg : durationGuard ttl = some td) (hl : s.lease > s.now) :
    lstep s (.lockTry i ttl) = (s, .conflict) := by show doLockTry s i ttl = _; unfold doLockTry; simp only [hg, hl, if_true]

theorem lstep_lockTry_ok (hg : durationGuard ttl = some td) (hl : ¬ s.lease > s.now) :
    lstep s (.lockTry i ttl) =
      ({ s with lease := s.now + td, holders := setHolder s.holders i (s.now + td) }, .acquired (s.now + td)) := by
  show doLockTry s i ttl = _; unfold doLockTry; simp only [hg, hl, if_false]

theorem lstep_renew_notHolder (hh : s.holder i = none) :
    lstep s (.renew i ttl) = (s, .notHolder) := by show doRenew s i ttl = _; unfold doRenew; simp only [hh]

theorem lstep_renew_invalid (hh : s.holder i = some prev) (hg : durationGuard ttl = none) :
    lstep s (.renew i ttl) = (s, .invalidTTL) := by show doRenew s i ttl = _; unfold doRenew; simp only [hh, hg]

theorem lstep_renew_expired (hh : s.holder i = some prev) (hg : durationGuard ttl = some td)
    (he : s.lease = 0 ∨ s.now > s.lease ∨ s.lease ≠ prev) :
    lstep s (.renew i ttl) = (s, .expired) := by
  show doRenew s i ttl = _
  unfold doRenew; simp only [hh, hg]
  by_cases h0 : s.lease = 0
  · simp only [h0, if_true]
  · by_cases h1 : s.now > s.lease
    · simp only [h0, h1, if_true, if_false]
    · have h2 : s.lease ≠ prev := by rcases he with h | h | h <;> first | exact absurd h h0 | exact absurd h h1 | exact h
      simp only [h0, h1, h2, ne_eq, not_false_eq_true, if_true, if_false]

theorem lstep_renew_ok (hh : s.holder i = some prev) (hg : durationGuard ttl = some td)
    (h0 : s.lease ≠ 0) (h1 : ¬ s.now > s.lease) (h2 : s.lease = prev) :
    lstep s (.renew i ttl) =
      ({ s with lease := s.now + td, holders := setHolder s.holders i (s.now + td) }, .renewed (s.now + td)) := by
  show doRenew s i ttl = _
  unfold doRenew; simp only [hh, hg]
  subst h2
  simp only [h0, h1, if_false, ne_eq, not_true_eq_false]

/-- `RenewLockLease(key, dur)` is the ticker's `renewLeaseOnce`: the caller's duration plays no role -/
theorem lstep_renewLock (dur : Int) : lstep s (.renewLock i dur ttl) = lstep s (.renew i ttl) := rfl

theorem lstep_unlock_notHolder (hh : s.holder i = none) :
    lstep s (.unlock i) = (s, .notHolder) := by show doUnlock s i = _; unfold doUnlock; simp only [hh]

theorem lstep_unlock_released (hh : s.holder i = some tok) (hl : s.lease = tok) :
    lstep s (.unlock i) = ({ s with lease := 0, holders := dropHolder s.holders i }, .released) := by
  show doUnlock s i = _; unfold doUnlock; simp only [hh, hl, if_true]

theorem lstep_unlock_expired (hh : s.holder i = some tok) (hl : s.lease ≠ tok) :
    lstep s (.unlock i) = ({ s with holders := dropHolder s.holders i }, .expired) := by
  show doUnlock s i = _; unfold doUnlock; simp only [hh, hl, if_false]
end eqs

theorem inv_tick (s : LockSt) (d : Nat) (h : Inv s) : Inv (lstep s (.tick d)).1 := by
  rw [lstep_tick]
  intro i c hc
  have hc' : s.holder i = some c := hc
  rcases h i c hc' with h1 | h2
  · left; show c ≤ s.now + d; omega
  · by_cases hle : c ≤ s.now + d
    · left; exact hle
    · right; exact h2

/-- installing a fresh token `now + td` (acquire over a free/expired lease, or renewal by the unique
current holder) preserves the invariant -/
theorem inv_install (s : LockSt) (i td : Nat) (hpos : 0 < td)
    (hothers : ∀ j c, j ≠ i → s.holder j = some c → c ≤ s.now) :
    Inv { s with lease := s.now + td, holders := setHolder s.holders i (s.now + td) } := by
  intro j c hc
  have hc' : (setHolder s.holders i (s.now + td)).lookup j = some c := hc
  rw [lookup_setHolder] at hc'
  by_cases hj : j = i
  · rw [if_pos hj] at hc'
    right
    refine ⟨(Option.some.inj hc').symm, ?_⟩
    intro k e hk hke
    have hk' : (setHolder s.holders i (s.now + td)).lookup k = some e := hk
    have hke' : e = s.now + td := hke
    rw [lookup_setHolder] at hk'
    by_cases hki : k = i
    · rw [hki, hj]
    · rw [if_neg hki] at hk'
      have := hothers k e hki hk'
      omega
  · rw [if_neg hj] at hc'
    left
    exact hothers j c hj hc'

theorem inv_lockTry (s : LockSt) (i ttl : Nat) (h : Inv s) : Inv (lstep s (.lockTry i ttl)).1 := by
  cases hg : durationGuard ttl with
  | none => rw [lstep_lockTry_invalid s i ttl hg]; exact h
  | some td =>
    by_cases hl : s.lease > s.now
    · rw [lstep_lockTry_conflict s i ttl td hg hl]; exact h
    · rw [lstep_lockTry_ok s i ttl td hg hl]
      apply inv_install s i td (durationGuard_pos hg)
      intro j c _ hc
      rcases h j c hc with h1 | ⟨h2, _⟩
      · exact h1
      · omega

theorem inv_renew (s : LockSt) (i ttl : Nat) (h : Inv s) : Inv (lstep s (.renew i ttl)).1 := by
  cases hh : s.holder i with
  | none => rw [lstep_renew_notHolder s i ttl hh]; exact h
  | some prev =>
    cases hg : durationGuard ttl with
    | none => rw [lstep_renew_invalid s i ttl prev hh hg]; exact h
    | some td =>
      by_cases he : s.lease = 0 ∨ s.now > s.lease ∨ s.lease ≠ prev
      · rw [lstep_renew_expired s i ttl td prev hh hg he]; exact h
      · have h0 : s.lease ≠ 0 := fun e => he (Or.inl e)
        have h1 : ¬ s.now > s.lease := fun e => he (Or.inr (Or.inl e))
        have h2 : s.lease = prev := Classical.byContradiction fun e => he (Or.inr (Or.inr e))
        rw [lstep_renew_ok s i ttl td prev hh hg h0 h1 h2]
        apply inv_install s i td (durationGuard_pos hg)
        intro j c hj hc
        rcases h j c hc with hle | ⟨hcl, huniq⟩
        · exact hle
        · exact absurd (huniq i prev hh h2.symm) (fun e => hj e.symm)

theorem inv_unlock (s : LockSt) (i : Nat) (h : Inv s) : Inv (lstep s (.unlock i)).1 := by
  cases hh : s.holder i with
  | none => rw [lstep_unlock_notHolder s i hh]; exact h
  | some tok =>
    by_cases hl : s.lease = tok
    · rw [lstep_unlock_released s i tok hh hl]
      intro j c hc
      have hc' : (dropHolder s.holders i).lookup j = some c := hc
      rw [lookup_dropHolder] at hc'
      by_cases hj : j = i
      · rw [if_pos hj] at hc'; cases hc'
      · rw [if_neg hj] at hc'
        rcases h j c hc' with h1 | ⟨_, h3⟩
        · left; exact h1
        · exact absurd (h3 i tok hh hl.symm) (fun e => hj e.symm)
    · rw [lstep_unlock_expired s i tok hh hl]
      intro j c hc
      have hc' : (dropHolder s.holders i).lookup j = some c := hc
      rw [lookup_dropHolder] at hc'
      by_cases hj : j = i
      · rw [if_pos hj] at hc'; cases hc'
      · rw [if_neg hj] at hc'
        rcases h j c hc' with h1 | ⟨h2, h3⟩
        · left; exact h1
        · right
          refine ⟨h2, ?_⟩
          intro k e hk hke
          have hk' : (dropHolder s.holders i).lookup k = some e := hk
          rw [lookup_dropHolder] at hk'
          by_cases hki : k = i
          · rw [if_pos hki] at hk'; cases hk'
          · rw [if_neg hki] at hk'; exact h3 k e hk' hke

theorem inv_step (s : LockSt) (e : Ev) (h : Inv s) : Inv (lstep s e).1 := by
  cases e with
  | tick d => exact inv_tick s d h
  | lockTry i ttl => exact inv_lockTry s i ttl h
  | renew i ttl => exact inv_renew s i ttl h
  | renewLock i dur ttl => rw [lstep_renewLock]; exact inv_renew s i ttl h
  | unlock i => exact inv_unlock s i h

theorem inv_init : Inv {} := by
  intro i c hc
  have : ([] : List (Nat × Nat)).lookup i = some c := hc
  simp at this

/-- the invariant holds after EVERY schedule of ticks, lock attempts, renewals and unlocks of any
number of storage instances -/
theorem inv_reachable (es : List Ev) : Inv (lrun {} es) := by
  suffices ∀ s, Inv s → Inv (lrun s es) from this _ inv_init
  induction es with
  | nil => intro s h; exact h
  | cons e es ih => intro s h; exact ih _ (inv_step s e h)

/-- **C49 (locks, mutual exclusion).** In every reachable state at most one storage instance validly
holds the lock. -/
theorem holders_exclusive (es : List Ev) (i j : Nat)
    (hi : ValidHolds (lrun {} es) i) (hj : ValidHolds (lrun {} es) j) : i = j := by
  obtain ⟨a, ha, hal, hat⟩ := hi
  obtain ⟨b, hb, hbl, _⟩ := hj
  rcases inv_reachable es i a ha with h | ⟨_, h⟩
  · omega
  · exact (h j b hb hbl).symm

/-- **C49 (locks).** While instance `i` validly holds the lock (acquired, lease unexpired, not unlocked),
a lock attempt of ANY instance is refused with a conflict and changes nothing — `Lock` keeps polling. -/
theorem lock_exclusive (s : LockSt) (i j ttl td : Nat) (hi : ValidHolds s i) (hg : durationGuard ttl = some td) :
    lstep s (.lockTry j ttl) = (s, .conflict) := by
  obtain ⟨tok, _, hl, hn⟩ := hi
  exact lstep_lockTry_conflict s j ttl td hg (by omega)

/-- … until it is unlocked: `Unlock` by the valid holder frees the lease, and the next attempt succeeds -/
theorem unlock_releases (s : LockSt) (i j ttl td : Nat) (hi : ValidHolds s i) (hg : durationGuard ttl = some td) :
    (lstep s (.unlock i)).2 = .released ∧ (lstep s (.unlock i)).1.lease = 0 ∧
    (lstep (lstep s (.unlock i)).1 (.lockTry j ttl)).2 = .acquired (s.now + td) := by
  obtain ⟨tok, hh, hl, hn⟩ := hi
  rw [lstep_unlock_released s i tok hh hl.symm]
  refine ⟨rfl, rfl, ?_⟩
  rw [lstep_lockTry_ok _ j ttl td hg (by show ¬ (0 > s.now); omega)]

/-- … or its lease expires: once `now` reaches the lease, an attempt succeeds even without unlock -/
theorem expiry_frees (s : LockSt) (j ttl td : Nat) (he : s.lease ≤ s.now) (hg : durationGuard ttl = some td) :
    (lstep s (.lockTry j ttl)).2 = .acquired (s.now + td) := by
  rw [lstep_lockTry_ok s j ttl td hg (by omega)]

/-- renewal at any moment up to the expiry (the ticker fires every ttl/4) keeps the lock and pushes the
expiry to `now + ttl` -/
theorem renew_keeps (s : LockSt) (i d ttl td : Nat) (hi : ValidHolds s i) (hd : s.now + d ≤ s.lease)
    (hg : durationGuard ttl = some td) :
    let s1 := (lstep s (.tick d)).1
    (lstep s1 (.renew i ttl)).2 = .renewed (s.now + d + td) ∧ ValidHolds (lstep s1 (.renew i ttl)).1 i := by
  obtain ⟨tok, hh, hl, hn⟩ := hi
  have hpos := durationGuard_pos hg
  intro s1
  have hs1 : s1 = { s with now := s.now + d } := rfl
  have hh' : s1.holder i = some tok := hh
  have hl1 : s1.lease = tok := hl.symm
  have hn1 : s1.now = s.now + d := rfl
  have h0 : s1.lease ≠ 0 := by rw [hl1]; omega
  have h1 : ¬ s1.now > s1.lease := by rw [hl1, hn1]; omega
  rw [lstep_renew_ok s1 i ttl td tok hh' hg h0 h1 hl1]
  refine ⟨by rw [hn1], s1.now + td, ?_, rfl, ?_⟩
  · show (setHolder s1.holders i (s1.now + td)).lookup i = some (s1.now + td)
    rw [lookup_setHolder, if_pos rfl]
  · show s1.now < s1.now + td; omega

/-- a stale instance (lease taken over after expiry) cannot disturb the new holder: its unlock does not
free the lease (and its renewal fails: `lstep_renew_expired`) -/
theorem stale_cannot_release (s : LockSt) (i tok : Nat) (hh : s.holder i = some tok) (hne : s.lease ≠ tok) :
    (lstep s (.unlock i)).2 = .expired ∧ (lstep s (.unlock i)).1.lease = s.lease := by
  rw [lstep_unlock_expired s i tok hh hne]; exact ⟨rfl, rfl⟩


/-! ### a live holder keeps the lock: explicit `RenewLockLease`, ticker renewals, contenders -/

/-- an explicit `RenewLockLease(key, dur)` at any moment up to the expiry — whatever `dur` the caller passes —
keeps the lock exactly like a ticker renewal: the lease is pushed to `now + ttl` (the CONFIGURED ttl), and the
token the instance remembers afterwards IS that new lease (so its next renewal and its `Unlock` are accepted) -/
theorem renewLock_keeps (s : LockSt) (i d : Nat) (dur : Int) (ttl td : Nat) (hi : ValidHolds s i) (hd : s.now + d ≤ s.lease)
    (hg : durationGuard ttl = some td) :
    let s1 := (lstep s (.tick d)).1
    let s2 := (lstep s1 (.renewLock i dur ttl)).1
    (lstep s1 (.renewLock i dur ttl)).2 = .renewed (s.now + d + td) ∧ ValidHolds s2 i ∧
    s2.holder i = some (s.now + d + td) ∧ s2.lease = s.now + d + td ∧ s2.now = s.now + d := by
  obtain ⟨tok, hh, hl, hn⟩ := hi
  have hpos := durationGuard_pos hg
  intro s1 s2
  have hh' : s1.holder i = some tok := hh
  have hl1 : s1.lease = tok := hl.symm
  have hn1 : s1.now = s.now + d := rfl
  have h0 : s1.lease ≠ 0 := by rw [hl1]; omega
  have h1 : ¬ s1.now > s1.lease := by rw [hl1, hn1]; omega
  have hs2 : lstep s1 (.renewLock i dur ttl) =
      ({ s1 with lease := s1.now + td, holders := setHolder s1.holders i (s1.now + td) }, .renewed (s1.now + td)) := by
    rw [lstep_renewLock]; exact lstep_renew_ok s1 i ttl td tok hh' hg h0 h1 hl1
  have hlk : s2.holder i = some (s1.now + td) := by
    show (lstep s1 (.renewLock i dur ttl)).1.holder i = _
    rw [hs2]
    show (setHolder s1.holders i (s1.now + td)).lookup i = some (s1.now + td)
    rw [lookup_setHolder, if_pos rfl]
  have hle : s2.lease = s1.now + td := by
    show (lstep s1 (.renewLock i dur ttl)).1.lease = _; rw [hs2]
  have hno : s2.now = s1.now := by
    show (lstep s1 (.renewLock i dur ttl)).1.now = _; rw [hs2]
  refine ⟨by rw [hs2, hn1], ⟨s1.now + td, hlk, hle.symm, by rw [hno]; omega⟩, by rw [hlk, hn1], by rw [hle, hn1], by rw [hno, hn1]⟩

/-- … and the ticker's next renewal after an explicit one (any time `d2` up to the new expiry) is accepted -/
theorem ticker_after_renewLock (s : LockSt) (i d : Nat) (dur : Int) (ttl td d2 : Nat) (hi : ValidHolds s i)
    (hd : s.now + d ≤ s.lease) (hg : durationGuard ttl = some td) (hd2 : d2 ≤ td) :
    let s2 := (lstep (lstep s (.tick d)).1 (.renewLock i dur ttl)).1
    (lstep (lstep s2 (.tick d2)).1 (.renew i ttl)).2 = .renewed (s.now + d + d2 + td) ∧
    ValidHolds (lstep (lstep s2 (.tick d2)).1 (.renew i ttl)).1 i := by
  intro s2
  obtain ⟨_, hv, _, hle, hno⟩ := renewLock_keeps s i d dur ttl td hi hd hg
  have := renew_keeps s2 i d2 ttl td hv (by rw [hle, hno]; omega) hg
  rw [hno] at this
  exact this

/-- a step that does not take the lock away from a valid holder `i` from outside: not `i`'s own `Unlock`, and no
passage of time up to the expiry of the current lease (i.e. `i`'s renewals keep coming before the expiry) -/
def Harmless (i : Nat) (s : LockSt) : Ev → Prop
  | .tick d => s.now + d < s.lease
  | .unlock j => j ≠ i
  | _ => True

instance (i : Nat) (s : LockSt) (e : Ev) : Decidable (Harmless i s e) := by
  cases e <;> unfold Harmless <;> infer_instance

/-- the whole schedule is harmless for `i`, step by step along the run -/
def KeepsAlive (i : Nat) : LockSt → List Ev → Prop
  | _, [] => True
  | s, e :: es => Harmless i s e ∧ KeepsAlive i (lstep s e).1 es

instance instDecKeepsAlive (i : Nat) : (s : LockSt) → (es : List Ev) → Decidable (KeepsAlive i s es)
  | _, [] => isTrue trivial
  | s, e :: es =>
    have := instDecKeepsAlive i (lstep s e).1 es
    (inferInstance : Decidable (Harmless i s e ∧ KeepsAlive i (lstep s e).1 es))

/-- a renewal (ticker or explicit) of ANY instance leaves a valid holder valid: its own renewal is accepted
and installs the new token, a foreign one is refused because the foreign token is stale (invariant) -/
theorem validHolds_renew (s : LockSt) (i j ttl : Nat) (hinv : Inv s) (hi : ValidHolds s i) :
    ValidHolds (lstep s (.renew j ttl)).1 i := by
  obtain ⟨tok, hh, hl, hn⟩ := hi
  cases hj : s.holder j with
  | none => rw [lstep_renew_notHolder s j ttl hj]; exact ⟨tok, hh, hl, hn⟩
  | some prev =>
    cases hg : durationGuard ttl with
    | none => rw [lstep_renew_invalid s j ttl prev hj hg]; exact ⟨tok, hh, hl, hn⟩
    | some td =>
      by_cases hji : j = i
      · have hpt : prev = tok := by rw [hji, hh] at hj; exact (Option.some.inj hj).symm
        have hpos := durationGuard_pos hg
        rw [lstep_renew_ok s j ttl td prev hj hg (by omega) (by omega) (by omega)]
        refine ⟨s.now + td, ?_, rfl, ?_⟩
        · show (setHolder s.holders j (s.now + td)).lookup i = some (s.now + td)
          rw [lookup_setHolder, if_pos hji.symm]
        · show s.now < s.now + td; omega
      · have hne : s.lease ≠ prev := by
          rcases hinv j prev hj with h1 | ⟨_, h3⟩
          · omega
          · exact absurd (h3 i tok hh hl) (fun e => hji e.symm)
        rw [lstep_renew_expired s j ttl td prev hj hg (Or.inr (Or.inr hne))]
        exact ⟨tok, hh, hl, hn⟩

/-- one harmless step keeps a valid holder valid -/
theorem validHolds_step (s : LockSt) (i : Nat) (e : Ev) (hinv : Inv s) (hi : ValidHolds s i)
    (he : Harmless i s e) : ValidHolds (lstep s e).1 i := by
  cases e with
  | tick d =>
    obtain ⟨tok, hh, hl, hn⟩ := hi
    have hd : s.now + d < s.lease := he
    rw [lstep_tick]
    exact ⟨tok, hh, hl, by show s.now + d < tok; omega⟩
  | lockTry j ttl =>
    obtain ⟨tok, hh, hl, hn⟩ := hi
    cases hg : durationGuard ttl with
    | none => rw [lstep_lockTry_invalid s j ttl hg]; exact ⟨tok, hh, hl, hn⟩
    | some td => rw [lstep_lockTry_conflict s j ttl td hg (by omega)]; exact ⟨tok, hh, hl, hn⟩
  | renew j ttl => exact validHolds_renew s i j ttl hinv hi
  | renewLock j dur ttl => rw [lstep_renewLock]; exact validHolds_renew s i j ttl hinv hi
  | unlock j =>
    obtain ⟨tok, hh, hl, hn⟩ := hi
    have hji : j ≠ i := he
    cases hj : s.holder j with
    | none => rw [lstep_unlock_notHolder s j hj]; exact ⟨tok, hh, hl, hn⟩
    | some t' =>
      have hne : s.lease ≠ t' := by
        rcases hinv j t' hj with h1 | ⟨_, h3⟩
        · omega
        · exact absurd (h3 i tok hh hl) (fun e => hji e.symm)
      rw [lstep_unlock_expired s j t' hj hne]
      refine ⟨tok, ?_, hl, hn⟩
      show (dropHolder s.holders j).lookup i = some tok
      rw [lookup_dropHolder, if_neg (fun e => hji e.symm)]; exact hh

/-- **C49 (locks: held until unlocked or expired).** From any state satisfying the invariant (every reachable
one does) in which `i` validly holds the lock, after EVERY schedule of lock attempts, ticker renewals, explicit
`RenewLockLease` calls (any duration argument) and unlocks of ANY instances in which `i` itself does not unlock
and time never reaches the expiry of the lease current at that moment, `i` still validly holds the lock. -/
theorem held_until_unlock_or_expiry (s : LockSt) (i : Nat) (es : List Ev) (hinv : Inv s) (hi : ValidHolds s i)
    (hk : KeepsAlive i s es) : ValidHolds (lrun s es) i ∧ Inv (lrun s es) := by
  induction es generalizing s with
  | nil => exact ⟨hi, hinv⟩
  | cons e es ih => exact ih _ (inv_step s e hinv) (validHolds_step s i e hinv hi hk.1) hk.2

theorem keepsAlive_prefix (i : Nat) (s : LockSt) (es1 es2 : List Ev) (h : KeepsAlive i s (es1 ++ es2)) :
    KeepsAlive i s es1 := by
  induction es1 generalizing s with
  | nil => trivial
  | cons e es ih => exact ⟨h.1, ih _ h.2⟩

/-- **C49 (locks, the statement).** While instance `i` holds the lock and keeps renewing it (ticker or explicit
`RenewLockLease`) — until it unlocks or lets the lease expire — EVERY lock attempt of every instance anywhere in
the schedule is refused and changes nothing. -/
theorem no_other_obtains_while_held (s : LockSt) (i j ttl : Nat) (es1 es2 : List Ev) (hinv : Inv s)
    (hi : ValidHolds s i) (hk : KeepsAlive i s (es1 ++ .lockTry j ttl :: es2)) :
    lstep (lrun s es1) (.lockTry j ttl) = (lrun s es1, .conflict) ∨
    lstep (lrun s es1) (.lockTry j ttl) = (lrun s es1, .invalidTTL) := by
  have hv := (held_until_unlock_or_expiry s i es1 hinv hi (keepsAlive_prefix i s es1 _ hk)).1
  cases hg : durationGuard ttl with
  | none => right; exact lstep_lockTry_invalid _ j ttl hg
  | some td => left; exact lock_exclusive _ i j ttl td hv hg

/-- the same from the very beginning: any schedule `es0` whatsoever, then a schedule that keeps `i` alive -/
theorem no_other_obtains_while_held_reachable (es0 es1 es2 : List Ev) (i j ttl td : Nat)
    (hi : ValidHolds (lrun {} es0) i) (hg : durationGuard ttl = some td)
    (hk : KeepsAlive i (lrun {} es0) (es1 ++ .lockTry j ttl :: es2)) :
    (lstep (lrun (lrun {} es0) es1) (.lockTry j ttl)).2 = .conflict := by
  have hv := (held_until_unlock_or_expiry _ i es1 (inv_reachable es0) hi (keepsAlive_prefix i _ es1 _ hk)).1
  rw [lock_exclusive _ i j ttl td hv hg]

/-! ### the renewal goroutine and the context `Lock` was called with (model part 3)

The schedules now also contain the end (`ctxDone`) of the contexts the instances called `Lock` with, KV faults hitting
a ticker, and the ticker itself is a goroutine that may or may not be running. -/

theorem mem_startTicker {ts : List Nat} {i : Nat} (j : Nat) (h : i ∈ ts) : i ∈ startTicker ts j := by
  unfold startTicker
  by_cases hij : i = j
  · subst hij; exact List.mem_cons_self
  · exact List.mem_cons_of_mem _ (List.mem_filter.mpr ⟨h, by simpa using hij⟩)

theorem mem_stopTicker {ts : List Nat} {i j : Nat} (h : i ∈ ts) (hij : i ≠ j) : i ∈ stopTicker ts j := by
  unfold stopTicker
  exact List.mem_filter.mpr ⟨h, by simpa using hij⟩

section reqs
variable (p : LeaseParent) (s : RSt) (i ttl d : Nat)

theorem rstepP_tick : rstepP p s (.ev (.tick d)) = ({ s with lock := (lstep s.lock (.tick d)).1 }, .none) := rfl

theorem rstepP_lockTry : rstepP p s (.ev (.lockTry i ttl)) =
    ({ lock := (lstep s.lock (.lockTry i ttl)).1,
       tickers := if (lstep s.lock (.lockTry i ttl)).2.isAcquired then startTicker s.tickers i else s.tickers },
     (lstep s.lock (.lockTry i ttl)).2) := rfl

theorem rstepP_renew_running (h : i ∈ s.tickers) : rstepP p s (.ev (.renew i ttl)) =
    ({ lock := (lstep s.lock (.renew i ttl)).1,
       tickers := if (lstep s.lock (.renew i ttl)).2.isRenewed then s.tickers else stopTicker s.tickers i },
     (lstep s.lock (.renew i ttl)).2) := by
  show (if i ∈ s.tickers then _ else _) = _
  rw [if_pos h]

/-- a goroutine that has ended renews nothing: no KV call, nothing changes -/
theorem rstepP_renew_stopped (h : i ∉ s.tickers) : rstepP p s (.ev (.renew i ttl)) = (s, .none) := by
  show (if i ∈ s.tickers then _ else _) = _
  rw [if_neg h]

theorem rstepP_unlock : rstepP p s (.ev (.unlock i)) =
    ({ lock := (lstep s.lock (.unlock i)).1,
       tickers := if (lstep s.lock (.unlock i)).2 = .notHolder then s.tickers else stopTicker s.tickers i },
     (lstep s.lock (.unlock i)).2) := rfl

theorem rstepP_renewLock (dur : Int) : rstepP p s (.ev (.renewLock i dur ttl)) =
    ({ s with lock := (lstep s.lock (.renewLock i dur ttl)).1 }, (lstep s.lock (.renewLock i dur ttl)).2) := rfl

theorem rstepP_kvFault : rstepP p s (.kvFault i) = ({ s with tickers := stopTicker s.tickers i }, .none) := rfl

/-- **the code**: the end of the context `Lock` was called with reaches nothing — the lease holder's lifetime
context descends from `context.Background()` -/
theorem ctxDone_changes_nothing : rstep s (.ctxDone i) = (s, .none) := rfl

/-- had the lifetime context been derived from the caller's context, its end would stop the renewals -/
theorem ctxDone_acquireCtx : rstepP .acquireCtx s (.ctxDone i) = ({ s with tickers := stopTicker s.tickers i }, .none) := rfl
end reqs

/-- the lock part of an extended step is unchanged, or it is the part-2 step of the same event -/
theorem rstepP_lock (p : LeaseParent) (s : RSt) (e : REv) :
    (rstepP p s e).1.lock = s.lock ∨ ∃ e', e = .ev e' ∧ (rstepP p s e).1.lock = (lstep s.lock e').1 := by
  cases e with
  | ev e' =>
    cases e' with
    | tick d => right; exact ⟨_, rfl, rfl⟩
    | lockTry i ttl => right; exact ⟨_, rfl, rfl⟩
    | renew i ttl =>
      by_cases h : i ∈ s.tickers
      · right; exact ⟨_, rfl, by rw [rstepP_renew_running p s i ttl h]⟩
      · left; rw [rstepP_renew_stopped p s i ttl h]
    | renewLock i dur ttl => right; exact ⟨_, rfl, rfl⟩
    | unlock i => right; exact ⟨_, rfl, rfl⟩
  | kvFault i => left; rfl
  | ctxDone i => left; cases p <;> rfl

theorem rinv_step (p : LeaseParent) (s : RSt) (e : REv) (h : Inv s.lock) : Inv (rstepP p s e).1.lock := by
  rcases rstepP_lock p s e with h1 | ⟨e', _, h1⟩
  · rw [h1]; exact h
  · rw [h1]; exact inv_step _ _ h

/-- the lease invariant survives every extended schedule, whatever the lifetime context descends from -/
theorem rinv_reachable (p : LeaseParent) (es : List REv) : Inv (rrunP p {} es).lock := by
  suffices ∀ s : RSt, Inv s.lock → Inv (rrunP p s es).lock from this _ inv_init
  induction es with
  | nil => intro s h; exact h
  | cons e es ih => intro s h; exact ih _ (rinv_step p s e h)

/-- **C49 (locks, mutual exclusion) over the extended schedules**: contexts ending, tickers stopping, KV faults —
at most one instance validly holds the lock. (This part does not depend on the lifetime context's parent: what
depends on it is how long a holder KEEPS the lock, below.) -/
theorem r_holders_exclusive (p : LeaseParent) (es : List REv) (i j : Nat)
    (hi : ValidHolds (rrunP p {} es).lock i) (hj : ValidHolds (rrunP p {} es).lock j) : i = j := by
  obtain ⟨a, ha, hal, hat⟩ := hi
  obtain ⟨b, hb, hbl, _⟩ := hj
  rcases rinv_reachable p es i a ha with h | ⟨_, h⟩
  · omega
  · exact (h j b hb hbl).symm

/-- a step that neither unlocks `i` nor lets its lease run out nor breaks its ticker from outside. The end of the
context `i` (or anybody) called `Lock` with is NOT among the things that must not happen. -/
def RHarmless (i : Nat) (s : RSt) : REv → Prop
  | .ev (.tick d) => s.lock.now + d < s.lock.lease
  | .ev (.unlock j) => j ≠ i
  | .ev (.renew j ttl) => j = i → (durationGuard ttl).isSome    -- `i` renews with its configured TTL (≥ 1 s: it acquired with it)
  | .ev (.lockTry _ _) => True
  | .ev (.renewLock _ _ _) => True
  | .kvFault j => j ≠ i
  | .ctxDone _ => True

instance (i : Nat) (s : RSt) (e : REv) : Decidable (RHarmless i s e) := by
  cases e with
  | ev e' => cases e' <;> unfold RHarmless <;> infer_instance
  | kvFault j => unfold RHarmless; infer_instance
  | ctxDone j => unfold RHarmless; infer_instance

theorem harmless_of_rharmless {i : Nat} {s : RSt} {e : Ev} (h : RHarmless i s (.ev e)) : Harmless i s.lock e := by
  cases e with
  | tick d => exact h
  | unlock j => exact h
  | lockTry j ttl => trivial
  | renew j ttl => trivial
  | renewLock j dur ttl => trivial

def RKeepsAlive (i : Nat) : RSt → List REv → Prop
  | _, [] => True
  | s, e :: es => RHarmless i s e ∧ RKeepsAlive i (rstep s e).1 es

instance instDecRKeepsAlive (i : Nat) : (s : RSt) → (es : List REv) → Decidable (RKeepsAlive i s es)
  | _, [] => isTrue trivial
  | s, e :: es =>
    have := instDecRKeepsAlive i (rstep s e).1 es
    (inferInstance : Decidable (RHarmless i s e ∧ RKeepsAlive i (rstep s e).1 es))

/-- the ticker's renewal of a valid holder is accepted (so the goroutine goes on) -/
theorem renew_of_validHolds (s : LockSt) (i ttl td : Nat) (hi : ValidHolds s i) (hg : durationGuard ttl = some td) :
    lstep s (.renew i ttl) =
      ({ s with lease := s.now + td, holders := setHolder s.holders i (s.now + td) }, .renewed (s.now + td)) := by
  obtain ⟨tok, hh, hl, hn⟩ := hi
  exact lstep_renew_ok s i ttl td tok hh hg (by omega) (by omega) hl.symm

/-- one harmless step: the holder stays a valid holder AND its renewal goroutine keeps running -/
theorem holder_step (s : RSt) (i : Nat) (e : REv) (hinv : Inv s.lock) (hv : ValidHolds s.lock i)
    (ht : i ∈ s.tickers) (he : RHarmless i s e) :
    ValidHolds (rstep s e).1.lock i ∧ i ∈ (rstep s e).1.tickers := by
  constructor
  · rcases rstepP_lock leaseParent s e with h1 | ⟨e', hee, h1⟩
    · show ValidHolds (rstepP leaseParent s e).1.lock i
      rw [h1]; exact hv
    · show ValidHolds (rstepP leaseParent s e).1.lock i
      rw [h1]; subst hee
      exact validHolds_step s.lock i e' hinv hv (harmless_of_rharmless he)
  · show i ∈ (rstepP leaseParent s e).1.tickers
    cases e with
    | ev e' =>
      cases e' with
      | tick d => rw [rstepP_tick]; exact ht
      | lockTry j ttl =>
        rw [rstepP_lockTry]
        show i ∈ (if _ then _ else _)
        split
        · exact mem_startTicker j ht
        · exact ht
      | renew j ttl =>
        by_cases hj : j ∈ s.tickers
        · rw [rstepP_renew_running _ s j ttl hj]
          show i ∈ (if _ then _ else _)
          by_cases hji : j = i
          · subst hji
            have hsome : (durationGuard ttl).isSome := he rfl
            obtain ⟨td, hg⟩ := Option.isSome_iff_exists.mp hsome
            rw [renew_of_validHolds s.lock j ttl td hv hg]
            exact ht
          · split
            · exact ht
            · exact mem_stopTicker ht (fun e => hji e.symm)
        · rw [rstepP_renew_stopped _ s j ttl hj]; exact ht
      | renewLock j dur ttl => rw [rstepP_renewLock]; exact ht
      | unlock j =>
        have hji : j ≠ i := he
        rw [rstepP_unlock]
        show i ∈ (if _ then _ else _)
        split
        · exact ht
        · exact mem_stopTicker ht (fun e => hji e.symm)
    | kvFault j =>
      have hji : j ≠ i := he
      rw [rstepP_kvFault]
      exact mem_stopTicker ht (fun e => hji e.symm)
    | ctxDone j => exact ht

/-- **C49 (locks: held until unlocked or expired, with the goroutine).** From any state in which `i` validly holds
the lock and its renewal goroutine runs, after EVERY schedule — lock attempts, ticker periods, explicit renewals and
unlocks of any instances, KV faults hitting other instances' tickers, and the END OF ANY CONTEXT `Lock` WAS CALLED
WITH, `i`'s own included — in which `i` does not unlock and time does not reach the expiry of the then-current lease,
`i` still validly holds the lock and its goroutine still runs. -/
theorem held_with_ticker (s : RSt) (i : Nat) (es : List REv) (hinv : Inv s.lock) (hv : ValidHolds s.lock i)
    (ht : i ∈ s.tickers) (hk : RKeepsAlive i s es) :
    ValidHolds (rrun s es).lock i ∧ i ∈ (rrun s es).tickers ∧ Inv (rrun s es).lock := by
  induction es generalizing s with
  | nil => exact ⟨hv, ht, hinv⟩
  | cons e es ih =>
    have h := holder_step s i e hinv hv ht hk.1
    exact ih (rstep s e).1 (rinv_step leaseParent s e hinv) h.1 h.2 hk.2

theorem rkeepsAlive_prefix (i : Nat) (s : RSt) (es1 es2 : List REv) (h : RKeepsAlive i s (es1 ++ es2)) :
    RKeepsAlive i s es1 := by
  induction es1 generalizing s with
  | nil => trivial
  | cons e es ih => exact ⟨h.1, ih _ h.2⟩

/-- **C49 (locks, the statement, over the extended schedules).** While `i` holds the lock — whatever became of
the context it acquired it with — every lock attempt of every instance is refused and changes nothing. -/
theorem r_no_other_obtains_while_held (s : RSt) (i j ttl : Nat) (es1 es2 : List REv) (hinv : Inv s.lock)
    (hv : ValidHolds s.lock i) (ht : i ∈ s.tickers) (hk : RKeepsAlive i s (es1 ++ .ev (.lockTry j ttl) :: es2)) :
    rstep (rrun s es1) (.ev (.lockTry j ttl)) = (rrun s es1, .conflict) ∨
    rstep (rrun s es1) (.ev (.lockTry j ttl)) = (rrun s es1, .invalidTTL) := by
  have hv' := (held_with_ticker s i es1 hinv hv ht (rkeepsAlive_prefix i s es1 _ hk)).1
  show rstepP leaseParent _ _ = _ ∨ rstepP leaseParent _ _ = _
  rw [rstepP_lockTry]
  cases hg : durationGuard ttl with
  | none => right; rw [lstep_lockTry_invalid _ j ttl hg]; rfl
  | some td => left; rw [lock_exclusive _ i j ttl td hv' hg]; rfl

/-- the lock behaviour does not depend on the lifetime of the acquiring contexts at all: deleting every `ctxDone`
from a schedule gives the same state -/
def REv.isCtxDone : REv → Bool
  | .ctxDone _ => true
  | _ => false

theorem acquire_ctx_irrelevant (s : RSt) (es : List REv) :
    rrun s es = rrun s (es.filter (fun e => !e.isCtxDone)) := by
  induction es generalizing s with
  | nil => rfl
  | cons e es ih =>
    cases e with
    | ctxDone i =>
      show rrun (rstep s (.ctxDone i)).1 es = _
      rw [ctxDone_changes_nothing]
      simpa [REv.isCtxDone] using ih s
    | ev e' =>
      have : ((REv.ev e') :: es).filter (fun e => !e.isCtxDone) = .ev e' :: es.filter (fun e => !e.isCtxDone) := by
        simp [REv.isCtxDone]
      rw [this]; exact ih _
    | kvFault i =>
      have : ((REv.kvFault i) :: es).filter (fun e => !e.isCtxDone) = .kvFault i :: es.filter (fun e => !e.isCtxDone) := by
        simp [REv.isCtxDone]
      rw [this]; exact ih _

/-! the ticker discharges the "time does not reach the expiry" hypothesis: rounds of a live holder. In each round
some time `d` shorter than the lease passes, then any number of contexts end and contenders try to lock, then
`i`'s ticker period elapses. -/

/-- events that happen "in between": contexts ending (anybody's), lock attempts (anybody's) -/
def Quiet : REv → Prop
  | .ctxDone _ => True
  | .ev (.lockTry _ _) => True
  | _ => False

instance : DecidablePred Quiet := fun e => by
  cases e with
  | ev e' => cases e' <;> unfold Quiet <;> infer_instance
  | kvFault j => unfold Quiet; infer_instance
  | ctxDone j => unfold Quiet; infer_instance

def tickerRounds (i ttl : Nat) : List (Nat × List REv) → List REv
  | [] => []
  | (d, cs) :: rs => .ev (.tick d) :: (cs ++ .ev (.renew i ttl) :: tickerRounds i ttl rs)

/-- a quiet event changes nothing while somebody validly holds the lock, and is harmless -/
theorem quiet_step (s : RSt) (i : Nat) (e : REv) (hv : ValidHolds s.lock i) (hq : Quiet e) :
    (rstep s e).1 = s ∧ RHarmless i s e := by
  cases e with
  | ctxDone j => exact ⟨rfl, trivial⟩
  | kvFault j => exact absurd hq (by simp [Quiet])
  | ev e' =>
    cases e' with
    | lockTry j ttl =>
      refine ⟨?_, trivial⟩
      show (rstepP leaseParent s _).1 = s
      rw [rstepP_lockTry]
      cases hg : durationGuard ttl with
      | none => rw [lstep_lockTry_invalid _ j ttl hg]; rfl
      | some td => rw [lock_exclusive _ i j ttl td hv hg]; rfl
    | tick d => exact absurd hq (by simp [Quiet])
    | renew j ttl => exact absurd hq (by simp [Quiet])
    | renewLock j dur ttl => exact absurd hq (by simp [Quiet])
    | unlock j => exact absurd hq (by simp [Quiet])

theorem rkeepsAlive_quiet_append (s : RSt) (i : Nat) (cs rest : List REv) (hv : ValidHolds s.lock i)
    (hq : ∀ e ∈ cs, Quiet e) (hr : RKeepsAlive i s rest) : RKeepsAlive i s (cs ++ rest) := by
  induction cs with
  | nil => exact hr
  | cons e cs ih =>
    obtain ⟨hs, hh⟩ := quiet_step s i e hv (hq e List.mem_cons_self)
    refine ⟨hh, ?_⟩
    rw [hs]
    exact ih (fun e' he' => hq e' (List.mem_cons_of_mem _ he'))

/-- **a live holder keeps the lock by its ticker alone.** `i` validly holds a lease that still has a full period
to go (`now + td ≤ lease`: true right after `Lock` and after every renewal) and its goroutine runs. Then every
schedule of rounds "less than a lease of time passes; contexts end — `i`'s acquiring context too —, contenders try;
the ticker period elapses" keeps `i` alive: all hypotheses of `held_with_ticker` / `r_no_other_obtains_while_held`
hold, with no assumption about the lease left other than the ticker's period being shorter than the TTL. -/
theorem ticker_rounds_keepAlive (i ttl td : Nat) (hg : durationGuard ttl = some td) (rs : List (Nat × List REv))
    (hd : ∀ r ∈ rs, r.1 < td) (hq : ∀ r ∈ rs, ∀ e ∈ r.2, Quiet e)
    (s : RSt) (hinv : Inv s.lock) (hv : ValidHolds s.lock i) (ht : i ∈ s.tickers)
    (hfresh : s.lock.now + td ≤ s.lock.lease) :
    RKeepsAlive i s (tickerRounds i ttl rs) := by
  induction rs generalizing s with
  | nil => trivial
  | cons r rs ih =>
    obtain ⟨d, cs⟩ := r
    have hdr : d < td := hd (d, cs) List.mem_cons_self
    have hqr : ∀ e ∈ cs, Quiet e := hq (d, cs) List.mem_cons_self
    -- time passes
    have hT : RHarmless i s (.ev (.tick d)) := by show s.lock.now + d < s.lock.lease; omega
    have h1 := holder_step s i _ hinv hv ht hT
    have hinv1 := rinv_step leaseParent s (.ev (.tick d)) hinv
    refine ⟨hT, ?_⟩
    generalize hs1 : (rstep s (.ev (.tick d))).1 = s1 at h1 hinv1 ⊢
    have hinv1' : Inv s1.lock := by rw [← hs1]; exact hinv1
    -- quiet events, then the ticker
    apply rkeepsAlive_quiet_append s1 i cs _ h1.1 hqr
    have hR : RHarmless i s1 (.ev (.renew i ttl)) := by
      intro _; rw [hg]; rfl
    refine ⟨hR, ?_⟩
    have h2 := holder_step s1 i _ hinv1' h1.1 h1.2 hR
    have hinv2 := rinv_step leaseParent s1 (.ev (.renew i ttl)) hinv1'
    have hfresh2 : (rstep s1 (.ev (.renew i ttl))).1.lock.now + td ≤ (rstep s1 (.ev (.renew i ttl))).1.lock.lease := by
      show (rstepP leaseParent s1 _).1.lock.now + td ≤ (rstepP leaseParent s1 _).1.lock.lease
      rw [rstepP_renew_running _ s1 i ttl h1.2, renew_of_validHolds s1.lock i ttl td h1.1 hg]
      exact Nat.le_refl _
    exact ih (fun r hr => hd r (List.mem_cons_of_mem _ hr)) (fun r hr => hq r (List.mem_cons_of_mem _ hr))
      _ hinv2 h2.1 h2.2 hfresh2

/-- … hence in such a run every lock attempt, wherever it falls, is refused -/
theorem ticker_rounds_exclude (i ttl td : Nat) (hg : durationGuard ttl = some td) (rs : List (Nat × List REv))
    (hd : ∀ r ∈ rs, r.1 < td) (hq : ∀ r ∈ rs, ∀ e ∈ r.2, Quiet e)
    (s : RSt) (hinv : Inv s.lock) (hv : ValidHolds s.lock i) (ht : i ∈ s.tickers)
    (hfresh : s.lock.now + td ≤ s.lock.lease)
    (es1 es2 : List REv) (j ttl' : Nat) (hsplit : tickerRounds i ttl rs = es1 ++ .ev (.lockTry j ttl') :: es2) :
    rstep (rrun s es1) (.ev (.lockTry j ttl')) = (rrun s es1, .conflict) ∨
    rstep (rrun s es1) (.ev (.lockTry j ttl')) = (rrun s es1, .invalidTTL) := by
  have hk := ticker_rounds_keepAlive i ttl td hg rs hd hq s hinv hv ht hfresh
  rw [hsplit] at hk
  exact r_no_other_obtains_while_held s i j ttl' es1 es2 hinv hv ht hk

/-! ### a renewal that is answered late (model part 4)

`renewLease` gives each renewal `context.Background()`: a request that needs `lat` to reach the KV is waited for. -/

/-- as coded, a slow renewal of a running goroutine is "time `lat` passes, then the ticker's renewal": it lies within
the schedules of `held_with_ticker` / `r_no_other_obtains_while_held` -/
theorem slowRenew_eq (s : RSt) (i ttl lat : Nat) (ht : i ∈ s.tickers) :
    slowRenew s i ttl lat = rstep (rrun s [.ev (.tick lat)]) (.ev (.renew i ttl)) := by
  show (if i ∈ s.tickers then _ else _) = _
  rw [if_pos ht]
  rfl

/-- the ticker's renewal of a valid holder whose goroutine runs: accepted, the goroutine goes on, a full TTL again -/
theorem renew_running_valid (s1 : RSt) (i ttl td : Nat) (hg : durationGuard ttl = some td) (hinv1 : Inv s1.lock)
    (hv1 : ValidHolds s1.lock i) (ht1 : i ∈ s1.tickers) :
    ValidHolds (rstep s1 (.ev (.renew i ttl))).1.lock i ∧ i ∈ (rstep s1 (.ev (.renew i ttl))).1.tickers ∧
    Inv (rstep s1 (.ev (.renew i ttl))).1.lock ∧
    (rstep s1 (.ev (.renew i ttl))).1.lock.now = s1.lock.now ∧
    (rstep s1 (.ev (.renew i ttl))).1.lock.lease = s1.lock.now + td ∧
    (rstep s1 (.ev (.renew i ttl))).2 = .renewed (s1.lock.now + td) := by
  have hR : RHarmless i s1 (.ev (.renew i ttl)) := by intro _; rw [hg]; rfl
  have h2 := holder_step s1 i _ hinv1 hv1 ht1 hR
  have hinv2 : Inv (rstep s1 (.ev (.renew i ttl))).1.lock := rinv_step leaseParent s1 (.ev (.renew i ttl)) hinv1
  have heq : rstep s1 (.ev (.renew i ttl)) =
      ({ lock := { s1.lock with lease := s1.lock.now + td, holders := setHolder s1.lock.holders i (s1.lock.now + td) },
         tickers := s1.tickers }, .renewed (s1.lock.now + td)) := by
    show rstepP leaseParent s1 _ = _
    rw [rstepP_renew_running _ s1 i ttl ht1, renew_of_validHolds s1.lock i ttl td hv1 hg]
    rfl
  refine ⟨h2.1, h2.2, hinv2, ?_, ?_, ?_⟩ <;> rw [heq]

/-- **C49 (locks: a slow renewal is not a lost lock).** `i` validly holds the lock, its goroutine runs, and the
renewal request it makes now needs `lat` to reach the KV, less than what is left of the lease — however `lat`
compares with the ticker period. Then the renewal is accepted when it arrives: `i` still validly holds, the goroutine
still runs, and the lease is a full TTL long again (`now + td ≤ lease`, the starting condition of
`ticker_rounds_keepAlive`). -/
theorem slow_renewal_keeps (s : RSt) (i ttl td lat : Nat) (hg : durationGuard ttl = some td) (hinv : Inv s.lock)
    (hv : ValidHolds s.lock i) (ht : i ∈ s.tickers) (hl : s.lock.now + lat < s.lock.lease) :
    ValidHolds (slowRenew s i ttl lat).1.lock i ∧ i ∈ (slowRenew s i ttl lat).1.tickers ∧
    Inv (slowRenew s i ttl lat).1.lock ∧
    (slowRenew s i ttl lat).1.lock.now = s.lock.now + lat ∧
    (slowRenew s i ttl lat).1.lock.lease = s.lock.now + lat + td ∧
    (slowRenew s i ttl lat).2 = .renewed (s.lock.now + lat + td) := by
  rw [slowRenew_eq s i ttl lat ht]
  have hT : RHarmless i s (.ev (.tick lat)) := hl
  have h1 := holder_step s i _ hinv hv ht hT
  have hinv1 : Inv (rstep s (.ev (.tick lat))).1.lock := rinv_step leaseParent s (.ev (.tick lat)) hinv
  exact renew_running_valid (rstep s (.ev (.tick lat))).1 i ttl td hg hinv1 h1.1 h1.2

/-- … and while the request is under way (any time `d ≤ lat` after it was made) every lock attempt of every
instance is refused and changes nothing -/
theorem slow_renewal_excludes (s : RSt) (i j ttl' d lat : Nat) (hinv : Inv s.lock) (hv : ValidHolds s.lock i)
    (ht : i ∈ s.tickers) (hl : s.lock.now + lat < s.lock.lease) (hd : d ≤ lat) :
    rstep (rrun s [.ev (.tick d)]) (.ev (.lockTry j ttl')) = (rrun s [.ev (.tick d)], .conflict) ∨
    rstep (rrun s [.ev (.tick d)]) (.ev (.lockTry j ttl')) = (rrun s [.ev (.tick d)], .invalidTTL) := by
  apply r_no_other_obtains_while_held s i j ttl' [.ev (.tick d)] [] hinv hv ht
  refine ⟨?_, trivial, trivial⟩
  show s.lock.now + d < s.lock.lease
  omega

/-- … and afterwards the ticker alone keeps the holder alive again: after a slow renewal, every schedule of ticker
rounds (see `ticker_rounds_keepAlive`) satisfies the hypotheses of `held_with_ticker`, so every lock attempt in it is
refused (`r_no_other_obtains_while_held`) -/
theorem slow_renewal_then_rounds (s : RSt) (i ttl td lat : Nat) (hg : durationGuard ttl = some td) (hinv : Inv s.lock)
    (hv : ValidHolds s.lock i) (ht : i ∈ s.tickers) (hl : s.lock.now + lat < s.lock.lease)
    (rs : List (Nat × List REv)) (hd : ∀ r ∈ rs, r.1 < td) (hq : ∀ r ∈ rs, ∀ e ∈ r.2, Quiet e) :
    RKeepsAlive i (slowRenew s i ttl lat).1 (tickerRounds i ttl rs) := by
  obtain ⟨h1, h2, h3, h4, h5, _⟩ := slow_renewal_keeps s i ttl td lat hg hinv hv ht hl
  exact ticker_rounds_keepAlive i ttl td hg rs hd hq _ h3 h1 h2 (by rw [h4, h5]; exact Nat.le_refl _)

/-! ## non-vacuity -/


-- the repaired listing on the formerly failing input: keys a/b, a/b/x, a/b/y/z, a/bc/q
example : listNonRec (["a/b", "a/b/x", "a/b/y/z", "a/bc/q"].map (fun s => kvKeyName s.toList)) "a/b".toList
    = ["a/b/x".toList, "a/b/y".toList] := by decide
example : IsChild (["a/b/y/z"].map (fun s => kvKeyName s.toList)) "a/b".toList "a/b/y".toList :=
  ⟨"y".toList, by decide, by decide, kvKeyName "a/b/y/z".toList, by simp, Or.inr ⟨"z".toList, by decide⟩⟩
example : lastWrite [] [.delete "k".toList, .store "k".toList [1], .store "j".toList [2]] "j".toList = some [2] := by decide
-- A acquires at t=0 for 2 s, renews at 0.5 s; B is refused at 1 s and at 2.4 s; A unlocks; B acquires
example :
    let s := lrun {} [.lockTry 1 (2*second), .tick (second/2), .renew 1 (2*second), .tick (second/2)]
    ValidHolds s 1 ∧ (lstep s (.lockTry 2 (2*second))).2 = .conflict ∧
    (lstep (lrun s [.tick (second*14/10)]) (.lockTry 2 (2*second))).2 = .conflict ∧
    (lstep (lrun s [.unlock 1]) (.lockTry 2 (2*second))).2 = .acquired (3*second) := by
  refine ⟨⟨2500000000, by decide, by decide, by decide⟩, by decide, by decide, by decide⟩
-- A (ttl 2 s) locks; 0.3 s later it calls RenewLockLease with a 7 s duration argument (ignored: the lease
-- becomes now+2 s and A remembers exactly that token); the ticker renews 0.5 s later with it; B is refused
-- 1.9 s after that, i.e. 2.7 s after the Lock and long after the first two leases would have run out
example :
    let s := lrun {} [.lockTry 1 (2*second)]
    let es := [Ev.tick (3*second/10), .renewLock 1 (7*second) (2*second), .tick (second/2), .renew 1 (2*second),
               .tick (19*second/10)]
    ValidHolds s 1 ∧ Inv s ∧ KeepsAlive 1 s (es ++ [.lockTry 2 (2*second)]) ∧
    (lstep (lrun s es) (.lockTry 2 (2*second))).2 = .conflict ∧
    (lrun s es).holder 1 = some (28*second/10) := by
  refine ⟨⟨2000000000, by decide, by decide, by decide⟩, inv_reachable _, by decide, by decide, by decide⟩
-- the hypotheses of `held_until_unlock_or_expiry` are needed: without renewals the same contender succeeds
example :
    let s := lrun {} [.lockTry 1 (2*second)]
    ¬ KeepsAlive 1 s [.tick (27*second/10)] ∧
    (lstep (lrun s [.tick (27*second/10)]) (.lockTry 2 (2*second))).2 = .acquired (47*second/10) := by
  exact ⟨by decide, by decide⟩
-- a stale instance (2, lease taken over by 1 after expiry) renewing / unlocking is harmless for holder 1
example :
    let s := lrun {} [.lockTry 2 (second), .tick (second), .lockTry 1 (2*second)]
    ValidHolds s 1 ∧ KeepsAlive 1 s [.renew 2 second, .renewLock 2 (-1) second, .unlock 2, .tick second, .lockTry 2 second] ∧
    ValidHolds (lrun s [.renew 2 second, .renewLock 2 (-1) second, .unlock 2, .tick second]) 1 := by
  refine ⟨⟨3000000000, by decide, by decide, by decide⟩, by decide, ⟨3000000000, by decide, by decide, by decide⟩⟩
example : durationGuard (2*second) = some (2*second) := by decide


-- part 3. A (ttl 1 s) locks with a request-scoped context that ends 0.1 s later; its ticker fires every 0.25 s;
-- B tries at 0.6 s, 1.1 s (after the FIRST lease would have run out) and 1.6 s: refused each time; A still holds
-- and its goroutine still runs after 1.85 s. The schedule is an instance of `tickerRounds`.
def demoRounds : List (Nat × List REv) :=
  [(second/10, [.ctxDone 1]), (second/4, []), (second/4, [.ev (.lockTry 2 second)]), (second/4, []),
   (second/4, [.ev (.lockTry 2 second), .ctxDone 2]), (second/4, []), (second/4, [.ev (.lockTry 2 second)]), (second/4, [])]

example :
    let s := rrun {} [.ev (.lockTry 1 second)]
    ValidHolds s.lock 1 ∧ 1 ∈ s.tickers ∧ s.lock.now + second ≤ s.lock.lease ∧
    (∀ r ∈ demoRounds, r.1 < second) ∧ (∀ r ∈ demoRounds, ∀ e ∈ r.2, Quiet e) ∧
    RKeepsAlive 1 s (tickerRounds 1 second demoRounds) ∧
    ValidHolds (rrun s (tickerRounds 1 second demoRounds)).lock 1 ∧ 1 ∈ (rrun s (tickerRounds 1 second demoRounds)).tickers := by
  refine ⟨⟨1000000000, by decide, by decide, by decide⟩, by decide, by decide, by decide, by decide, by decide,
    ⟨2850000000, by decide, by decide, by decide⟩, by decide⟩
-- SENSITIVITY: what the property needs from `startLeaseRenewal`. The same schedule under a lifetime context derived
-- from the caller's context: the goroutine ends with the acquiring context, the lease lapses, and B's attempt at
-- 1.1 s SUCCEEDS although A never unlocked and no KV call failed; under the code's `context.Background()` it is refused
def demoPrefix : List REv :=
  [.ev (.lockTry 1 second), .ev (.tick (second/10)), .ctxDone 1, .ev (.renew 1 second), .ev (.tick (second/4)),
   .ev (.renew 1 second), .ev (.tick (second/4)), .ev (.renew 1 second), .ev (.tick (second/4)), .ev (.renew 1 second),
   .ev (.tick (second/4))]
example :
    (rstepP .acquireCtx (rrunP .acquireCtx {} demoPrefix) (.ev (.lockTry 2 second))).2 = .acquired 2100000000 ∧
    (1 ∉ (rrunP .acquireCtx {} demoPrefix).tickers) ∧
    (rrunP .acquireCtx {} demoPrefix).lock.holder 1 = some 1000000000 ∧     -- A still believes it holds the lock
    (rstep (rrun {} demoPrefix) (.ev (.lockTry 2 second))).2 = .conflict ∧
    1 ∈ (rrun {} demoPrefix).tickers := by
  refine ⟨by decide, by decide, by decide, by decide, by decide⟩
-- a ticker stops for good after ONE failed renewal (injected KV fault), and only an `Unlock` + `Lock` restarts it
example :
    let s := rrun {} [.ev (.lockTry 1 second), .kvFault 1, .ev (.tick (second/4)), .ev (.renew 1 second)]
    1 ∉ s.tickers ∧ s.lock.lease = second ∧ s.lock.holder 1 = some second := by decide
example : rrun {} demoPrefix = rrun {} (demoPrefix.filter (fun e => !e.isCtxDone)) ∧ (demoPrefix.filter (fun e => !e.isCtxDone)).length + 1 = demoPrefix.length :=
  ⟨acquire_ctx_irrelevant {} demoPrefix, by decide⟩


-- part 4. A (ttl 2 s) locks at 0, renews at 0.5 s, and the request its ticker makes at 1 s — 1.5 s of lease left —
-- needs 0.9 s to reach the KV (longer than the ticker period of 0.5 s). The hypotheses of `slow_renewal_keeps` hold:
def demoSlow : RSt :=
  rrun {} [.ev (.lockTry 1 (2*second)), .ev (.tick (second/2)), .ev (.renew 1 (2*second)), .ev (.tick (second/2))]
example :
    Inv demoSlow.lock ∧ ValidHolds demoSlow.lock 1 ∧ 1 ∈ demoSlow.tickers ∧
    demoSlow.lock.now + 9*second/10 < demoSlow.lock.lease ∧ durationGuard (2*second) = some (2*second) :=
  ⟨rinv_reachable leaseParent _, ⟨2500000000, by decide, by decide, by decide⟩, by decide, by decide, by decide⟩
-- as coded the renewal is awaited: A holds until 3.9 s and B, trying 3 s after A's Lock, is refused.
-- SENSITIVITY: what the property needs from `renewLease`. With a deadline of one ticker period per attempt the same
-- request is abandoned after 0.5 s, the goroutine returns, A still believes it holds the lock (token 2.5 s), and B's
-- attempt at 3 s SUCCEEDS although A never unlocked and the KV failed nothing
example :
    let a := (slowRenew demoSlow 1 (2*second) (9*second/10)).1
    let b := (slowRenewP (.perAttempt (second/2)) demoSlow 1 (2*second) (9*second/10)).1
    1 ∈ a.tickers ∧ a.lock.lease = 39*second/10 ∧
    (rstep (rrun a [.ev (.tick (11*second/10))]) (.ev (.lockTry 2 (2*second)))).2 = .conflict ∧
    1 ∉ b.tickers ∧ b.lock.holder 1 = some (25*second/10) ∧
    (rstep (rrun b [.ev (.tick (15*second/10))]) (.ev (.lockTry 2 (2*second)))).2 = .acquired (5*second) := by
  refine ⟨by decide, by decide, by decide, by decide, by decide, by decide⟩
-- a per-attempt deadline that the latency stays below changes nothing
example : slowRenewP (.perAttempt second) demoSlow 1 (2*second) (9*second/10) = slowRenew demoSlow 1 (2*second) (9*second/10) := rfl

end Specter.C49
