import SpecterModel.C18.Model
/-!
# C18 — Storage backends are safe under concurrent use

Theorems about the small-step interleaving models of the memory back-end (`Model.lean`), for ANY number
of threads and EVERY schedule (induction over `Reachable`):
* `Simple.put_cas_linearizable`, `Simple.no_lost_ack`, `Simple.conflict_only_if_concurrent`
  (`Put`/`Delete`/`Get` on the CAS-protected value pointer, incl. the shared `&empty` ABA case),
* `Lease.acquire_once`, `Lease.acquire_once_within_ttl` (`Acquire` = Load; clock; CAS),
* `Children.append_once`, `Children.append_once_no_remove` (one linearizable skipset call per operation —
  linearizability of `skipset`/`skipmap` themselves is assumed).
The AOF back-end (single writer goroutine) and the SQLite back-end (single writer connection, immediate
transactions) are not modelled at small-step level; all three back-ends are validated by the recorded-
history linearizability check of the driver.
-/
namespace Specter.C18

theorem specRun_snoc {σ ο ρ : Type} (f : σ → ο → ρ → Option σ) (s : σ) (l : List (ο × ρ)) (o : ο) (r : ρ) :
    specRun f s (l ++ [(o, r)]) = (specRun f s l).bind (fun s' => f s' o r) := by
  induction l generalizing s with
  | nil => simp [specRun]; cases f s o r <;> rfl
  | cons e rest ih =>
    obtain ⟨o', r'⟩ := e
    simp only [List.cons_append, specRun]
    cases f s o' r' with
    | none => rfl
    | some s' => exact ih s'

theorem upd_same {α} (f : Nat → α) (i : Nat) (v : α) : upd f i v i = v := by simp [upd]
theorem upd_other {α} (f : Nat → α) (i j : Nat) (v : α) (h : j ≠ i) : upd f i v j = f j := by simp [upd, h]

namespace Simple

structure Inv (s : Sys) : Prop where
  heap0 : s.heap 0 = ""
  nextpos : 0 < s.next
  ptrlt : s.ptr < s.next
  spec : specRun specSimple "" s.lin = some (abs s)
  fresh : ∀ t cur op, s.pc t = .loaded cur op →
    op ≠ .get ∧ s.seen t ≤ s.ver ∧ (s.seen t = s.ver → s.ptr = cur)

theorem inv_init : Inv init := by
  refine ⟨rfl, by decide, by decide, rfl, ?_⟩
  intro t cur op h; simp [init] at h

theorem inv_step {s s' : Sys} (hi : Inv s) (hs : Step s s') : Inv s' := by
  cases hs with
  | load t op h hop =>
    refine ⟨hi.heap0, hi.nextpos, hi.ptrlt, hi.spec, ?_⟩
    intro t' cur op' hp
    by_cases ht : t' = t
    · subst ht; simp [upd] at hp ⊢; obtain ⟨h1, h2⟩ := hp; subst h2; exact ⟨hop, h1⟩
    · simp [upd, ht] at hp ⊢; exact hi.fresh t' cur op' hp
  | casPut t cur v h hw =>
    have hne : s.next ≠ 0 := Nat.pos_iff_ne_zero.mp hi.nextpos
    refine ⟨?_, ?_, ?_, ?_, ?_⟩
    · show upd s.heap s.next v 0 = ""
      rw [upd_other _ _ _ _ (by omega)]; exact hi.heap0
    · simp
    · simp
    · simp only [specRun_snoc, hi.spec, Option.bind, abs, specSimple]; simp [upd]
    · intro t' c op' hp
      by_cases ht : t' = t
      · subst ht; simp [upd] at hp
      · simp [upd, ht] at hp
        have := (hi.fresh t' c op' hp).2.1
        refine ⟨(hi.fresh t' c op' hp).1, by simp; omega, fun he => ?_⟩
        simp at he; omega
  | casDel t cur h hw =>
    refine ⟨hi.heap0, hi.nextpos, hi.nextpos, ?_, ?_⟩
    · simp only [specRun_snoc, hi.spec, Option.bind, abs, specSimple]; simp [hi.heap0]
    · intro t' c op' hp
      by_cases ht : t' = t
      · subst ht; simp [upd] at hp
      · simp [upd, ht] at hp
        have := (hi.fresh t' c op' hp).2.1
        refine ⟨(hi.fresh t' c op' hp).1, by simp; omega, fun he => ?_⟩
        simp at he; omega
  | casFail t cur op h hw =>
    refine ⟨hi.heap0, hi.nextpos, hi.ptrlt, ?_, ?_⟩
    · simp only [specRun_snoc, hi.spec, Option.bind]
      cases op with
      | put v => simp [specSimple, abs]
      | del => simp [specSimple, abs]
      | get => exact absurd rfl (hi.fresh t cur .get h).1   -- a `Get` never reaches the CAS
    · intro t' c op' hp
      by_cases ht : t' = t
      · subst ht; simp [upd] at hp
      · simp [upd, ht] at hp; exact hi.fresh t' c op' hp
  | get t h =>
    refine ⟨hi.heap0, hi.nextpos, hi.ptrlt, ?_, ?_⟩
    · simp only [specRun_snoc, hi.spec, Option.bind]; simp [specSimple, abs]
    · intro t' c op' hp
      by_cases ht : t' = t
      · subst ht; simp [upd] at hp
      · simp [upd, ht] at hp; exact hi.fresh t' c op' hp
  | ret t r h =>
    refine ⟨hi.heap0, hi.nextpos, hi.ptrlt, hi.spec, ?_⟩
    intro t' c op' hp
    by_cases ht : t' = t
    · subst ht; simp [upd] at hp
    · simp [upd, ht] at hp; exact hi.fresh t' c op' hp

theorem inv_reachable {s : Sys} (h : Reachable s) : Inv s := by
  induction h with
  | init => exact inv_init
  | step _ hs ih => exact inv_step ih hs

/-- C18 `put_cas_linearizable`: in every reachable state of any number of threads, the ghost log — extended
by the stepping thread exactly at its successful CAS (effect), its failed CAS (`ErrKVSimpleConflict`, no
effect) or its `Load` (`Get`), i.e. at an instant inside that call — is a legal sequential history of
the register specification and ends in the value currently stored.  The shared `&empty` pointer of
`Delete` (ABA) does not matter: only pointer equality at the CAS instant is used. -/
theorem put_cas_linearizable {s : Sys} (h : Reachable s) : specRun specSimple "" s.lin = some (abs s) :=
  (inv_reachable h).spec

/-- a CAS can only fail (`ErrKVSimpleConflict`) when another call's CAS succeeded since this call's `Load` -/
theorem conflict_only_if_concurrent {s : Sys} (h : Reachable s) (t cur : Nat) (op : SOp)
    (hp : s.pc t = .loaded cur op) (hne : s.ptr ≠ cur) : s.seen t < s.ver := by
  obtain ⟨_, hle, himp⟩ := (inv_reachable h).fresh t cur op hp
  have : s.seen t ≠ s.ver := fun he => hne (himp he)
  omega

/-- the value written by the last successful write of a sequential history (`init` if none) -/
def writeOf (cur : String) : SOp → SRes → String
  | .put v, .ok => v
  | .del, .ok => ""
  | _, _ => cur

def lastWrite : String → List (SOp × SRes) → String
  | cur, [] => cur
  | cur, (o, r) :: rest => lastWrite (writeOf cur o r) rest

theorem specSimple_write {cur s' : String} {o : SOp} {r : SRes} (h : specSimple cur o r = some s') :
    s' = writeOf cur o r := by
  cases o <;> cases r <;> simp [specSimple, writeOf] at h ⊢ <;> first | exact h | exact h.symm | exact h.2.symm | skip

theorem specRun_lastWrite (l : List (SOp × SRes)) (i v : String) (h : specRun specSimple i l = some v) :
    v = lastWrite i l := by
  induction l generalizing i with
  | nil => simp [specRun] at h; exact h.symm
  | cons e rest ih =>
    obtain ⟨o, r⟩ := e
    simp only [specRun] at h
    cases hf : specSimple i o r with
    | none => rw [hf] at h; cases h
    | some s' => rw [hf] at h; rw [lastWrite, ← specSimple_write hf]; exact ih s' h

/-- C18 `no_lost_ack`: the stored value is the argument of the last successful CAS — an acknowledged
`Put`/`Delete` is never lost, an `ErrKVSimpleConflict` one never takes effect. -/
theorem no_lost_ack {s : Sys} (h : Reachable s) : abs s = lastWrite "" s.lin :=
  specRun_lastWrite s.lin "" (abs s) (put_cas_linearizable h)

/-- non-vacuity + the ABA scenario: t0 loads `&empty`; t1 puts "x"; t2 deletes (pointer is `&empty` again);
t0's CAS succeeds although two writes happened in between — and the history is still legal. -/
def abaRun : Sys :=
  let s0 := init
  let s1 := { s0 with pc := upd s0.pc 0 (.loaded 0 (.put "a")), seen := upd s0.seen 0 0 }
  let s2 := { s1 with pc := upd s1.pc 1 (.loaded 0 (.put "x")), seen := upd s1.seen 1 0 }
  let s3 := { s2 with ptr := 1, heap := upd s2.heap 1 "x", next := 2, pc := upd s2.pc 1 (.done .ok), ver := 1,
                      lin := [(.put "x", .ok)] }
  let s4 := { s3 with pc := upd s3.pc 2 (.loaded 1 .del), seen := upd s3.seen 2 1 }
  let s5 := { s4 with ptr := 0, pc := upd s4.pc 2 (.done .ok), ver := 2, lin := [(.put "x", .ok), (.del, .ok)] }
  { s5 with ptr := 2, heap := upd s5.heap 2 "a", next := 3, pc := upd s5.pc 0 (.done .ok), ver := 3,
            lin := [(.put "x", .ok), (.del, .ok), (.put "a", .ok)] }

theorem aba_reachable : Reachable abaRun := by
  have r0 := Reachable.init
  have r1 := r0.step (Step.load init 0 (.put "a") rfl (by simp))
  have r2 := r1.step (Step.load _ 1 (.put "x") rfl (by simp))
  have r3 := r2.step (Step.casPut _ 1 0 "x" rfl rfl)
  have r4 := r3.step (Step.load _ 2 .del rfl (by simp))
  have r5 := r4.step (Step.casDel _ 2 1 rfl rfl)
  have r6 := r5.step (Step.casPut _ 0 0 "a" rfl rfl)
  exact r6

example : abs abaRun = "a" ∧ lastWrite "" abaRun.lin = "a" := by decide
end Simple

namespace Lease

structure Inv (w0 c0 : Nat) (s : Sys) : Prop where
  pw : s.grants.Pairwise (fun a b => a.1 ≥ b.2)
  le : ∀ e ∈ s.grants, e.2 ≤ s.word
  clk : c0 ≤ s.clock
  empty : s.grants = [] → s.word = w0
  ld : ∀ t cur ttl, s.pc t = .loaded cur ttl → 0 < ttl ∧ (s.grants = [] → cur = w0)
  ck : ∀ t cur now ttl, s.pc t = .checked cur now ttl → cur ≤ now ∧ 0 < ttl ∧ (s.grants = [] → cur = w0)
  rej : ∀ t, s.pc t = .done none → s.grants ≠ []

theorem inv_init (w0 c0 : Nat) : Inv w0 c0 (init w0 c0) := by
  refine ⟨List.Pairwise.nil, by simp [init], Nat.le_refl _, fun _ => rfl, ?_, ?_, ?_⟩ <;> intros <;> simp_all [init]

/-- frame: a step that only rewrites thread `t`'s pc to something that is not loaded/checked/rejected -/
theorem inv_step {w0 c0 : Nat} (hfree : w0 ≤ c0) {s s' : Sys} (hi : Inv w0 c0 s) (hs : Step s s') : Inv w0 c0 s' := by
  cases hs with
  | tick => exact ⟨hi.pw, hi.le, Nat.le_succ_of_le hi.clk, hi.empty, hi.ld, hi.ck, hi.rej⟩
  | load t ttl h httl =>
    refine ⟨hi.pw, hi.le, hi.clk, hi.empty, ?_, ?_, ?_⟩
    · intro t' cur ttl' hp
      by_cases ht : t' = t
      · subst ht; simp [upd] at hp; obtain ⟨rfl, rfl⟩ := hp; exact ⟨httl, hi.empty⟩
      · simp [upd, ht] at hp; exact hi.ld t' cur ttl' hp
    · intro t' cur now ttl' hp
      by_cases ht : t' = t
      · subst ht; simp [upd] at hp
      · simp [upd, ht] at hp; exact hi.ck t' cur now ttl' hp
    · intro t' hp
      by_cases ht : t' = t
      · subst ht; simp [upd] at hp
      · simp [upd, ht] at hp; exact hi.rej t' hp
  | busy t cur ttl h hc =>
    have hne : s.grants ≠ [] := by
      intro he
      have := (hi.ld t cur ttl h).2 he
      have := hi.clk
      omega
    refine ⟨hi.pw, hi.le, hi.clk, hi.empty, ?_, ?_, ?_⟩
    · intro t' cur' ttl' hp
      by_cases ht : t' = t
      · subst ht; simp [upd] at hp
      · simp [upd, ht] at hp; exact hi.ld t' cur' ttl' hp
    · intro t' cur' now ttl' hp
      by_cases ht : t' = t
      · subst ht; simp [upd] at hp
      · simp [upd, ht] at hp; exact hi.ck t' cur' now ttl' hp
    · intro t' _; exact hne
  | check t cur ttl h hc =>
    refine ⟨hi.pw, hi.le, hi.clk, hi.empty, ?_, ?_, ?_⟩
    · intro t' cur' ttl' hp
      by_cases ht : t' = t
      · subst ht; simp [upd] at hp
      · simp [upd, ht] at hp; exact hi.ld t' cur' ttl' hp
    · intro t' cur' now ttl' hp
      by_cases ht : t' = t
      · subst ht; simp [upd] at hp; obtain ⟨h1, h2, h3⟩ := hp; subst h1 h2 h3
        exact ⟨by omega, (hi.ld _ _ _ h).1, (hi.ld _ _ _ h).2⟩
      · simp [upd, ht] at hp; exact hi.ck t' cur' now ttl' hp
    · intro t' hp
      by_cases ht : t' = t
      · subst ht; simp [upd] at hp
      · simp [upd, ht] at hp; exact hi.rej t' hp
  | casOk t cur now ttl h hw =>
    obtain ⟨hcn, httl, _⟩ := hi.ck t cur now ttl h
    refine ⟨?_, ?_, hi.clk, by simp, ?_, ?_, ?_⟩
    · refine List.Pairwise.cons ?_ hi.pw
      intro e he; have := hi.le e he; simp; omega
    · intro e he
      simp at he
      rcases he with rfl | he
      · simp
      · have := hi.le e he; simp; omega
    · intro t' cur' ttl' hp
      by_cases ht : t' = t
      · subst ht; simp [upd] at hp
      · simp [upd, ht] at hp; exact ⟨(hi.ld t' cur' ttl' hp).1, by simp⟩
    · intro t' cur' now' ttl' hp
      by_cases ht : t' = t
      · subst ht; simp [upd] at hp
      · simp [upd, ht] at hp; obtain ⟨a, b, _⟩ := hi.ck t' cur' now' ttl' hp; exact ⟨a, b, by simp⟩
    · intro t' _; simp
  | casFail t cur now ttl h hw =>
    have hne : s.grants ≠ [] := by
      intro he
      have h1 := (hi.ck t cur now ttl h).2.2 he
      have h2 := hi.empty he
      exact hw (h2.trans h1.symm)
    refine ⟨hi.pw, hi.le, hi.clk, hi.empty, ?_, ?_, ?_⟩
    · intro t' cur' ttl' hp
      by_cases ht : t' = t
      · subst ht; simp [upd] at hp
      · simp [upd, ht] at hp; exact hi.ld t' cur' ttl' hp
    · intro t' cur' now' ttl' hp
      by_cases ht : t' = t
      · subst ht; simp [upd] at hp
      · simp [upd, ht] at hp; exact hi.ck t' cur' now' ttl' hp
    · intro t' _; exact hne
  | ret t r h =>
    refine ⟨hi.pw, hi.le, hi.clk, hi.empty, ?_, ?_, ?_⟩
    · intro t' cur' ttl' hp
      by_cases ht : t' = t
      · subst ht; simp [upd] at hp
      · simp [upd, ht] at hp; exact hi.ld t' cur' ttl' hp
    · intro t' cur' now' ttl' hp
      by_cases ht : t' = t
      · subst ht; simp [upd] at hp
      · simp [upd, ht] at hp; exact hi.ck t' cur' now' ttl' hp
    · intro t' hp
      by_cases ht : t' = t
      · subst ht; simp [upd] at hp
      · simp [upd, ht] at hp; exact hi.rej t' hp

theorem inv_reachable {w0 c0 : Nat} (hfree : w0 ≤ c0) {s : Sys} (h : Reachable w0 c0 s) : Inv w0 c0 s := by
  induction h with
  | init => exact inv_init w0 c0
  | step _ hs ih => exact inv_step hfree ih hs

/-- C18 `acquire_once`, any number of threads, any schedule, any clock behaviour, starting from a free
lease (`w0 ≤ c0`): (1) grants never overlap — every later grant was decided on a clock reading that is
not before the expiry (= token) of every earlier grant; (2) a rejected `Acquire` implies that some
`Acquire` was granted. -/
theorem acquire_once {w0 c0 : Nat} (hfree : w0 ≤ c0) {s : Sys} (h : Reachable w0 c0 s) :
    s.grants.Pairwise (fun later earlier => later.1 ≥ earlier.2) ∧
    (∀ t, s.pc t = .done none → s.grants ≠ []) :=
  ⟨(inv_reachable hfree h).pw, (inv_reachable hfree h).rej⟩

/-- … hence while the whole run stays within one TTL (every grant was decided before `T`, no token
expires before `T`) at most one `Acquire` succeeds; with (2): exactly one once any call has finished. -/
theorem acquire_once_within_ttl {w0 c0 : Nat} (hfree : w0 ≤ c0) {s : Sys} (h : Reachable w0 c0 s) (T : Nat)
    (hT : ∀ g ∈ s.grants, g.1 < T ∧ T ≤ g.2) : s.grants.length ≤ 1 := by
  have hp := (acquire_once hfree h).1
  match hg : s.grants with
  | [] => simp
  | [_] => simp
  | a :: b :: rest =>
    rw [hg] at hp hT
    have h1 := (List.pairwise_cons.mp hp).1 b (by simp)
    have h2 := hT a (by simp)
    have h3 := hT b (by simp)
    omega

/-- non-vacuity: two threads race for a free lease; one is granted, the other is rejected -/
theorem race_reachable : ∃ s, Reachable 0 5 s ∧ s.grants = [(5, 15)] ∧ s.pc 0 = .done (some 15) ∧ s.pc 1 = .done none := by
  have r0 : Reachable 0 5 (init 0 5) := Reachable.init
  have r1 := r0.step (Step.load _ 0 10 rfl (by decide))
  have r2 := r1.step (Step.load _ 1 10 rfl (by decide))
  have r3 := r2.step (Step.check _ 0 0 10 rfl (by decide))
  have r4 := r3.step (Step.check _ 1 0 10 rfl (by decide))
  have r5 := r4.step (Step.casOk _ 0 0 5 10 rfl rfl)
  have r6 := r5.step (Step.casFail _ 1 0 5 10 rfl (by decide))
  exact ⟨_, r6, rfl, rfl, rfl⟩
end Lease

namespace Children

structure Inv (s : Sys) : Prop where
  count : ∀ c, s.okAdds c = s.removed c + (if c ∈ s.set then 1 else 0)
  conf : ∀ c, 0 < s.conflicts c → 0 < s.okAdds c

theorem inv_init : Inv init := ⟨by intro c; simp [init], by intro c h; simp [init] at h⟩

theorem inv_step {s s' : Sys} (hi : Inv s) (hs : Step s s') : Inv s' := by
  cases hs with
  | addOk c h =>
    refine ⟨?_, ?_⟩
    · intro c'; have := hi.count c'
      by_cases hc : c' = c
      · subst hc; simp [bump, h] at this ⊢; omega
      · simp [bump, hc] at this ⊢; exact this
    · intro c' hp; have := hi.conf c' hp
      simp only [bump]; split <;> omega
  | addConflict c h =>
    refine ⟨hi.count, ?_⟩
    intro c' hp
    by_cases hc : c' = c
    · subst hc; have := hi.count c'; simp [h] at this; show 0 < s.okAdds c'; omega
    · simp [bump, hc] at hp; exact hi.conf c' hp
  | removeHit c h =>
    refine ⟨?_, hi.conf⟩
    intro c'; have := hi.count c'
    by_cases hc : c' = c
    · subst hc; simp [bump, h] at this ⊢; omega
    · simp [bump, hc] at this ⊢; exact this
  | removeMiss c h => exact hi

theorem inv_reachable {s : Sys} (h : Reachable s) : Inv s := by
  induction h with
  | init => exact inv_init
  | step _ hs ih => exact inv_step ih hs

/-- C18 `append_once`: for every child, successful appends and effective removes alternate — the number of
`nil` answers exceeds the number of deleting removes by exactly one while the child is present and by
zero while it is absent; a conflict answer implies an earlier success.  In particular k concurrent
appends of one child without removes: exactly one `nil`, k−1 `ErrKVPrefixConflict`. -/
theorem append_once {s : Sys} (h : Reachable s) (c : String) :
    s.okAdds c = s.removed c + (if c ∈ s.set then 1 else 0) ∧ (0 < s.conflicts c → 0 < s.okAdds c) :=
  ⟨(inv_reachable h).count c, (inv_reachable h).conf c⟩

theorem append_once_no_remove {s : Sys} (h : Reachable s) (c : String) (hr : s.removed c = 0) :
    s.okAdds c ≤ 1 ∧ (0 < s.conflicts c → s.okAdds c = 1) := by
  obtain ⟨h1, h2⟩ := append_once h c
  rw [hr] at h1
  refine ⟨by split at h1 <;> omega, fun hc => ?_⟩
  have := h2 hc
  split at h1 <;> omega

example : Reachable { init with set := ["c"], okAdds := bump init.okAdds "c", conflicts := bump init.conflicts "c" } :=
  (Reachable.init.step (Step.addOk init "c" (by simp [init]))).step (Step.addConflict _ "c" (by simp))
end Children
end Specter.C18
