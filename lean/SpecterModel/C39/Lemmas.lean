import SpecterModel.C39.Model
/-!
# C39 — lemmas about the sequential ring buffer (used by Props.lean)

Theorems about the model of `util/bufconn/bufconn.go` in `Model.lean` (ring buffer exactly as coded +
small-step layer with the two condition variables), for ALL capacities ≥ 1 and ALL event sequences.
`cap = 0` is a stated exclusion (`Write` of a non-empty slice would spin; the transport uses 8192).
-/
namespace Specter.C39

/-! ### list slices and splicing -/
def slice (l : List Nat) (a b : Nat) : List Nat := (l.drop a).take (b - a)
def splice (l : List Nat) (w : Nat) (ys : List Nat) : List Nat := l.take w ++ ys ++ l.drop (w + ys.length)
theorem splice_length (l ys : List Nat) (w : Nat) (h : w + ys.length ≤ l.length) :
    (splice l w ys).length = l.length := by
  unfold splice; simp; omega
theorem splice_get (l ys : List Nat) (w i : Nat) (h : w + ys.length ≤ l.length) :
    (splice l w ys)[i]? = if i < w then l[i]? else if i < w + ys.length then ys[i - w]? else l[i]? := by
  unfold splice
  have hm : min w l.length = w := by omega
  by_cases h1 : i < w
  · simp [h1, List.getElem?_append]
    intro h2; omega
  · by_cases h2 : i < w + ys.length
    · simp [h1, h2, List.getElem?_append, hm]
      intro h3; omega
    · have h3 : ¬ i - w < ys.length := by omega
      have h4 : w + ys.length + (i - w - ys.length) = i := by omega
      simp [h1, h2, List.getElem?_append, hm, h3, h4]

theorem slice_get (l : List Nat) (a b i : Nat) :
    (slice l a b)[i]? = if i < b - a then l[a + i]? else none := by
  unfold slice; simp [List.getElem?_take]

theorem slice_length (l : List Nat) (a b : Nat) (h : b ≤ l.length) : (slice l a b).length = b - a := by
  unfold slice; simp; omega

theorem slice_split (l : List Nat) (a m b : Nat) (h1 : a ≤ m) (h2 : m ≤ b) (h3 : b ≤ l.length) :
    slice l a b = slice l a m ++ slice l m b := by
  apply List.ext_getElem?
  intro i
  rw [List.getElem?_append, slice_length _ _ _ (by omega)]
  simp only [slice_get]
  by_cases c : i < m - a
  · have : i < b - a := by omega
    simp [c, this]
  · simp only [c, if_false]
    by_cases d : i < b - a
    · have e : i - (m - a) < b - m := by omega
      have f : m + (i - (m - a)) = a + i := by omega
      simp [d, e, f]
    · have e : ¬ i - (m - a) < b - m := by omega
      simp [d, e]

theorem slice_splice_before (l ys : List Nat) (w a b : Nat) (h : w + ys.length ≤ l.length) (hb : b ≤ w) :
    slice (splice l w ys) a b = slice l a b := by
  apply List.ext_getElem?
  intro i
  simp only [slice_get, splice_get _ _ _ _ h]
  by_cases c : i < b - a
  · have : a + i < w := by omega
    simp [c, this]
  · simp [c]

theorem slice_splice_after (l ys : List Nat) (w a b : Nat) (h : w + ys.length ≤ l.length) (ha : w + ys.length ≤ a) :
    slice (splice l w ys) a b = slice l a b := by
  apply List.ext_getElem?
  intro i
  simp only [slice_get, splice_get _ _ _ _ h]
  have h1 : ¬ a + i < w := by omega
  have h2 : ¬ a + i < w + ys.length := by omega
  simp [h1, h2]

theorem slice_splice_mid (l ys : List Nat) (w : Nat) (h : w + ys.length ≤ l.length) :
    slice (splice l w ys) w (w + ys.length) = ys := by
  apply List.ext_getElem?
  intro i
  simp only [slice_get, splice_get _ _ _ _ h]
  have e : w + ys.length - w = ys.length := by omega
  rw [e]
  by_cases c : i < ys.length
  · have h1 : ¬ w + i < w := by omega
    have h3 : w + i - w = i := by omega
    simp [c, h1, h3]
  · simp [c]

theorem slice_zero (l : List Nat) (b : Nat) : slice l 0 b = l.take b := by simp [slice]
theorem slice_self (l : List Nat) (a : Nat) : slice l a a = [] := by simp [slice]

structure Inv (p : Pipe) : Prop where
  r_le : p.r ≤ p.len
  len_le : p.len ≤ p.cap
  w_lt : p.w < p.cap
  r_lt : p.r < p.cap
  shape : p.w = p.len ∨ (p.len = p.cap ∧ p.w ≤ p.r)

theorem abs_eq (p : Pipe) : p.abs =
    if p.w = p.len then slice p.arr p.r p.len else slice p.arr p.r p.len ++ slice p.arr 0 p.w := by
  unfold Pipe.abs; simp [slice]

theorem inv_new (sz : Nat) (h : 0 < sz) : Inv (newPipe sz) := by
  constructor <;> simp [newPipe, Pipe.cap, h]

theorem abs_new (sz : Nat) : (newPipe sz).abs = [] := by simp [newPipe, Pipe.abs]

theorem abs_length (p : Pipe) (h : Inv p) :
    p.abs.length = if p.w = p.len then p.len - p.r else p.len - p.r + p.w := by
  have := h.len_le; have := h.w_lt; unfold Pipe.cap at *
  rw [abs_eq]; split
  · rw [slice_length _ _ _ (by omega)]
  · rw [List.length_append, slice_length _ _ _ (by omega), slice_length _ _ _ (by omega)]; omega

theorem abs_length_le (p : Pipe) (h : Inv p) : p.abs.length ≤ p.cap := by
  rw [abs_length p h]; have := h.len_le; have := h.w_lt; have := h.r_le; have := h.shape
  split <;> omega

theorem empty_iff (p : Pipe) (h : Inv p) : p.empty = true ↔ p.abs = [] := by
  rw [← List.length_eq_zero_iff, abs_length p h]
  have := h.len_le; have := h.w_lt; have := h.r_le; have := h.shape; have := h.r_lt
  simp only [Pipe.empty, beq_iff_eq]
  split <;> omega

theorem full_iff (p : Pipe) (h : Inv p) : p.full = true ↔ p.abs.length = p.cap := by
  rw [abs_length p h]
  have := h.len_le; have := h.w_lt; have := h.r_le; have := h.shape; have := h.r_lt
  simp only [Pipe.full, Bool.and_eq_true, decide_eq_true_eq, beq_iff_eq]
  split <;> omega

/-- flags are untouched by data movement -/
def sameFlags (p q : Pipe) : Prop :=
  q.closed = p.closed ∧ q.writeClosed = p.writeClosed ∧ q.rtimedout = p.rtimedout ∧ q.wtimedout = p.wtimedout ∧ q.cap = p.cap

theorem readCopy_spec (p : Pipe) (n : Nat) (h : Inv p) :
    Inv (readCopy p n).1 ∧ sameFlags p (readCopy p n).1 ∧ p.abs = (readCopy p n).2 ++ (readCopy p n).1.abs ∧
    (readCopy p n).2.length = min n (p.len - p.r) := by
  have h1 := h.len_le; have h2 := h.w_lt; have h3 := h.r_le; have h4 := h.shape; have h5 := h.r_lt
  unfold Pipe.cap at h1 h2 h5 h4
  have hlen : (List.take (min n (p.len - p.r)) (List.drop p.r p.arr)).length = min n (p.len - p.r) := by
    simp; omega
  unfold readCopy
  by_cases c5 : p.r + min n (p.len - p.r) = p.cap
  · -- the read reaches the end of the backing array: r wraps, len(buf) shrinks to w
    simp only [c5, if_true]
    unfold Pipe.cap at c5
    have hl : p.len = p.arr.length := by omega
    have hk : min n (p.len - p.r) = p.len - p.r := by omega
    have hw : p.w ≠ p.len := by omega
    refine ⟨?_, ?_, ?_, hlen⟩
    · constructor <;> simp [Pipe.cap] <;> omega
    · simp [sameFlags, Pipe.cap]
    · rw [abs_eq p, abs_eq]; simp only [hw, if_false, if_true, hk]
      simp [slice]
  · simp only [c5, if_false]
    unfold Pipe.cap at c5
    refine ⟨?_, ?_, ?_, hlen⟩
    · constructor <;> simp [Pipe.cap] <;> omega
    · simp [sameFlags, Pipe.cap]
    · have hs := slice_split p.arr p.r (p.r + min n (p.len - p.r)) p.len (by omega) (by omega) (by omega)
      have hd : List.take (min n (p.len - p.r)) (List.drop p.r p.arr) = slice p.arr p.r (p.r + min n (p.len - p.r)) := by
        simp [slice]
      rw [abs_eq p, abs_eq, hd, hs]; simp only
      split <;> simp

theorem writeChunk_spec (p : Pipe) (bs : List Nat) (h : Inv p) (hnf : p.full = false) :
    Inv (writeChunk p bs).1 ∧ sameFlags p (writeChunk p bs).1 ∧
    (writeChunk p bs).1.abs = p.abs ++ bs.take (writeChunk p bs).2 ∧
    (writeChunk p bs).2 ≤ bs.length ∧ (bs ≠ [] → 0 < (writeChunk p bs).2) := by
  have h1 := h.len_le; have h2 := h.w_lt; have h3 := h.r_le; have h4 := h.shape; have h5 := h.r_lt
  have hc : p.cap = p.arr.length := rfl
  have hf : ¬ (p.r < p.len ∧ p.r = p.w) := by
    simpa [Pipe.full] using hnf
  have hbl : bs ≠ [] → 0 < bs.length := fun hb => List.length_pos_iff.mpr hb
  unfold writeChunk; dsimp only
  generalize hx : min ((if p.w < p.r then p.r else p.cap) - p.w) bs.length = x
  have hy : (bs.take x).length = x := by simp; omega
  have harr : p.arr.take p.w ++ bs.take x ++ p.arr.drop (p.w + x) = splice p.arr p.w (bs.take x) := by
    simp [splice, hy]
  rw [harr]
  by_cases cA : p.w = p.len
  · -- unwrapped: data is arr[r:len], the chunk goes to arr[w:cap]
    have hnlt : ¬ p.w < p.r := by omega
    simp only [hnlt, if_false] at hx
    have hfit : p.w + (bs.take x).length ≤ p.arr.length := by omega
    have e1 := slice_splice_before p.arr (bs.take x) p.w p.r p.w hfit (by omega)
    have e2 := slice_splice_mid p.arr (bs.take x) p.w hfit
    have e3 := slice_split (splice p.arr p.w (bs.take x)) p.r p.w (p.w + x) (by omega) (by omega)
      (by rw [splice_length _ _ _ hfit]; omega)
    rw [hy] at e2
    have hl' : (if p.w + x > p.len then p.w + x else p.len) = p.w + x := by split <;> omega
    simp only [hl']
    by_cases cw : p.w + x = p.cap
    · rw [if_pos cw]
      refine ⟨?_, ?_, ?_, by omega, by intro hb; have := hbl hb; omega⟩
      · constructor <;> simp only [Pipe.cap, splice_length _ _ _ hfit] <;> first | omega | simp
      · simp [sameFlags, Pipe.cap, splice_length _ _ _ hfit]
      · rw [abs_eq p, abs_eq]; dsimp only
        have : ¬ (0 = p.w + x) := by omega
        rw [if_neg this, if_pos cA, slice_self, List.append_nil, ← cA, e3, e1, e2]
    · rw [if_neg cw]
      refine ⟨?_, ?_, ?_, by omega, by intro hb; have := hbl hb; omega⟩
      · constructor <;> simp only [Pipe.cap, splice_length _ _ _ hfit] <;> first | omega | simp
      · simp [sameFlags, Pipe.cap, splice_length _ _ _ hfit]
      · rw [abs_eq p, abs_eq]; dsimp only
        rw [if_pos rfl, if_pos cA, ← cA, e3, e1, e2]
  · -- wrapped: data is arr[r:cap] ++ arr[0:w], the chunk goes to arr[w:r]
    have hlc : p.len = p.cap := by omega
    have hwr : p.w < p.r := by omega
    simp only [hwr, if_true] at hx
    have hfit : p.w + (bs.take x).length ≤ p.arr.length := by omega
    have e1 := slice_splice_before p.arr (bs.take x) p.w 0 p.w hfit (by omega)
    have e2 := slice_splice_mid p.arr (bs.take x) p.w hfit
    have e3 := slice_split (splice p.arr p.w (bs.take x)) 0 p.w (p.w + x) (by omega) (by omega)
      (by rw [splice_length _ _ _ hfit]; omega)
    have e4 := slice_splice_after p.arr (bs.take x) p.w p.r p.len hfit (by omega)
    rw [hy] at e2
    have hne : ¬ p.w + x = p.cap := by omega
    have hle : ¬ p.w + x > p.len := by omega
    rw [if_neg hne, if_neg hle]
    refine ⟨?_, ?_, ?_, by omega, by intro hb; have := hbl hb; omega⟩
    · constructor <;> simp only [Pipe.cap, splice_length _ _ _ hfit] <;> first | omega | simp
    · simp [sameFlags, Pipe.cap, splice_length _ _ _ hfit]
    · rw [abs_eq p, abs_eq]; dsimp only
      have : ¬ p.w + x = p.len := by omega
      rw [if_neg this, if_neg cA, e4, e3, e1, e2, List.append_assoc]

/-- what one atomic run of the `Write` loops does -/
def WriteSpec (p : Pipe) (bs : List Nat) (n : Nat) (sig : Bool) (cp : List Nat)
    (q : Pipe × WOut × Bool × List Nat) : Prop :=
  Inv q.1 ∧ sameFlags p q.1 ∧
  ∃ k, k ≤ bs.length ∧ q.1.abs = p.abs ++ bs.take k ∧ q.2.2.2 = cp ++ bs.take k ∧
    q.2.2.1 = (sig || (p.empty && decide (0 < k))) ∧
    (match q.2.1 with
     | .ok m => k = bs.length ∧ m = n + bs.length ∧ (bs = [] ∨ (p.closed || p.writeClosed) = false)
     | .errClosed => bs ≠ [] ∧ (p.closed || p.writeClosed) = true
     | .timeout => bs ≠ [] ∧ q.1.full = true ∧ p.closed = false ∧ p.writeClosed = false ∧ p.wtimedout = true
     | .block rest m => rest = bs.drop k ∧ rest ≠ [] ∧ m = n + k ∧ q.1.full = true ∧
          p.closed = false ∧ p.writeClosed = false ∧ p.wtimedout = false
     | .spin => False)

theorem sameFlags_refl (p : Pipe) : sameFlags p p := by simp [sameFlags]
theorem sameFlags_trans {p q r : Pipe} (a : sameFlags p q) (b : sameFlags q r) : sameFlags p r := by
  unfold sameFlags at *
  obtain ⟨a1, a2, a3, a4, a5⟩ := a
  obtain ⟨b1, b2, b3, b4, b5⟩ := b
  exact ⟨b1.trans a1, b2.trans a2, b3.trans a3, b4.trans a4, b5.trans a5⟩

theorem writeLoop_spec (fuel : Nat) : ∀ (p : Pipe) (bs : List Nat) (n : Nat) (sig : Bool) (cp : List Nat),
    Inv p → bs.length < fuel → WriteSpec p bs n sig cp (writeLoop fuel p bs n sig cp) := by
  induction fuel with
  | zero => intro p bs n sig cp _ hf; omega
  | succ fuel ih =>
    intro p bs n sig cp h hf
    rw [writeLoop]
    by_cases c0 : bs.isEmpty = true
    · have : bs = [] := by simpa using c0
      subst this
      simp only [List.isEmpty_nil, if_true]
      exact ⟨h, sameFlags_refl p, 0, by simp⟩
    · have hne : bs ≠ [] := by simpa using c0
      simp only [c0, if_false, Bool.false_eq_true]
      by_cases c1 : (p.closed || p.writeClosed) = true
      · simp only [c1, if_true]
        exact ⟨h, sameFlags_refl p, 0, by simp [hne, c1]⟩
      · simp only [c1, if_false, Bool.false_eq_true]
        have c1' : p.closed = false ∧ p.writeClosed = false := by simpa using c1
        by_cases c2 : p.full = true
        · simp only [c2, Bool.not_true, if_false, Bool.false_eq_true]
          by_cases c3 : p.wtimedout = true
          · simp only [c3, if_true]
            exact ⟨h, sameFlags_refl p, 0, by simp [hne, c1', c2, c3]⟩
          · simp only [c3, if_false, Bool.false_eq_true]
            exact ⟨h, sameFlags_refl p, 0, by simp [hne, c1', c2, c3]⟩
        · have c2' : p.full = false := by simpa using c2
          simp only [c2', Bool.not_false, if_true]
          have hspec := writeChunk_spec p bs h c2'
          generalize hcq : writeChunk p bs = c at hspec ⊢
          obtain ⟨p1, x⟩ := c
          simp only at hspec ⊢
          obtain ⟨i1, f1, a1, l1, pos1⟩ := hspec
          have pos := pos1 hne
          have hlen : (bs.drop x).length < fuel := by simp; omega
          have ih' := ih p1 (bs.drop x) (n + x) (sig || p.empty) (cp ++ bs.take x) i1 hlen
          generalize writeLoop fuel p1 (bs.drop x) (n + x) (sig || p.empty) (cp ++ bs.take x) = q at ih' ⊢
          obtain ⟨i2, f2, k, hk, a2, cp2, s2, m2⟩ := ih'
          have hdl : (bs.drop x).length = bs.length - x := List.length_drop
          have htl : (bs.take x).length = x := by rw [List.length_take]; omega
          have hk' : k ≤ bs.length - x := by simpa using hk
          have htake : bs.take x ++ (bs.drop x).take k = bs.take (x + k) := by
            rw [List.take_add]
          have hp1ne : p1.empty = false := by
            have := empty_iff p1 i1
            cases hh : p1.empty
            · rfl
            · have e := this.mp hh
              rw [a1] at e
              have e2 := (List.append_eq_nil_iff.mp e).2
              rw [e2] at htl; simp at htl; omega
          refine ⟨i2, sameFlags_trans f1 f2, x + k, by omega, ?_, ?_, ?_, ?_⟩
          · rw [a2, a1, List.append_assoc, htake]
          · rw [cp2, List.append_assoc, htake]
          · rw [s2, hp1ne]; have : 0 < x + k := by omega
            simp [this]
          · have fl := f1
            unfold sameFlags at fl
            cases hq : q.2.1 <;> rw [hq] at m2 <;> simp only at m2 ⊢
            · exact ⟨by omega, by omega, Or.inr (by simpa using c1)⟩
            · exfalso; rw [fl.1, fl.2.1] at m2; exact c1 m2.2
            · refine ⟨hne, m2.2.1, c1'.1, c1'.2, ?_⟩; rw [← fl.2.2.2.1]; exact m2.2.2.2.2
            · obtain ⟨r1, r2, r3, r4, r5, r6, r7⟩ := m2
              refine ⟨by rw [r1, List.drop_drop], r2, by omega, r4, c1'.1, c1'.2, ?_⟩
              rw [← fl.2.2.2.1]; exact r7

/-- what one pass of `Read` does -/
def ReadSpec (p : Pipe) (n : Nat) (q : Pipe × ROut × Bool) : Prop :=
  Inv q.1 ∧ sameFlags p q.1 ∧
  (match q.2.1 with
   | .data d => p.closed = false ∧ p.abs = d ++ q.1.abs ∧ d.length ≤ n ∧ (0 < n → d ≠ []) ∧ q.2.2 = p.full
   | .eof => q.1 = p ∧ p.closed = false ∧ p.abs = [] ∧ p.writeClosed = true ∧ q.2.2 = false
   | .errClosed => q.1 = p ∧ p.closed = true ∧ q.2.2 = false
   | .timeout => q.1 = p ∧ p.closed = false ∧ p.abs = [] ∧ p.writeClosed = false ∧ p.rtimedout = true ∧ q.2.2 = false
   | .block => q.1 = p ∧ p.closed = false ∧ p.abs = [] ∧ p.writeClosed = false ∧ p.rtimedout = false ∧ q.2.2 = false)

theorem readStep_spec (p : Pipe) (n : Nat) (h : Inv p) : ReadSpec p n (readStep p n) := by
  have he := empty_iff p h
  unfold readStep ReadSpec
  by_cases c1 : p.closed = true
  · simp [c1, h, sameFlags_refl]
  · have c1' : p.closed = false := by simpa using c1
    rw [if_neg c1]
    by_cases c2 : p.empty = true
    · have ha := he.mp c2
      simp only [c2, Bool.not_true, Bool.false_eq_true, if_false]
      by_cases c3 : p.writeClosed = true
      · simp [c3, c1', h, sameFlags_refl, ha]
      · by_cases c4 : p.rtimedout = true
        · simp [c3, c4, c1', h, sameFlags_refl, ha]
        · simp [c3, c4, c1', h, sameFlags_refl, ha]
    · have c2' : p.empty = false := by simpa using c2
      rw [if_pos (by simp [c2'])]
      obtain ⟨i, f, a, l⟩ := readCopy_spec p n h
      have hne : p.r ≠ p.len := by simpa [Pipe.empty] using c2'
      have := h.r_le
      refine ⟨i, f, c1', a, by rw [l]; omega, ?_, rfl⟩
      intro hn; rw [← List.length_pos_iff, l]; omega

theorem writeStart_spec (p : Pipe) (bs : List Nat) (h : Inv p) :
    (p.closed = true ∧ writeStart p bs = (p, .errClosed, false, [])) ∨
    (p.closed = false ∧ WriteSpec p bs 0 false [] (writeStart p bs)) := by
  unfold writeStart
  by_cases c : p.closed = true
  · left; simp [c]
  · right; rw [if_neg c]; exact ⟨by simpa using c, writeLoop_spec _ p bs 0 false [] h (by omega)⟩

theorem writeResume_spec (p : Pipe) (rest : List Nat) (n : Nat) (h : Inv p) :
    WriteSpec p rest n false [] (writeResume p rest n) :=
  writeLoop_spec _ p rest n false [] h (by omega)

/-- changing only flags keeps the data view -/
theorem sameData (p q : Pipe) (hd : q.arr = p.arr ∧ q.len = p.len ∧ q.w = p.w ∧ q.r = p.r) :
    (Inv p → Inv q) ∧ q.abs = p.abs ∧ q.full = p.full ∧ q.empty = p.empty := by
  obtain ⟨a, b, c, d⟩ := hd
  refine ⟨?_, ?_, ?_, ?_⟩
  · intro h; constructor <;> simp only [Pipe.cap, a, b, c, d]
    · exact h.r_le
    · exact h.len_le
    · exact h.w_lt
    · exact h.r_lt
    · exact h.shape
  · simp [Pipe.abs, a, b, c, d]
  · simp [Pipe.full, b, c, d]
  · simp [Pipe.empty, b, d]

end Specter.C39
