import SpecterModel.Util
import SpecterModel.C41.Model
/-!
C41 line-protocol driver.

  snap <cached> <cdir> <dir> => <state>,<dir>                      rows of the CURRENT source's snapshot function
  leaf <ps> <pd> <cached> <cdir> <dir> <rc> <rcdir> => reload=…,…,err=…   rows of the CURRENT source's decision tree
      (rc/rcdir = does the re-load find an entry / the direction of that entry)
  reap <loaded> => del=…,closeCached=…,closeTrigger=…              what the CURRENT reapPeer does with the cached entry
      (printed by `extract c41-lines` from overlay/reuse.go and overlay/reaper.go as they are now; compared with
      the compiled-in Gen table)
  sched <dual 0|1> <preP> <preQ> <step,step,…> => P=<entry>;Q=<entry>;closed=<conns>;Pc=<r>;Qc=<r>;Qd=<r>;Pd=<r>[;eP=<w>][;eQ=<w>]
      one interleaving, executed by the harness' simulator over the CURRENT rows. Steps: s|d|r + Pc|Qc|Qd|Pd
      (snapshot, decide, reap), eP|eQ (reap by the close-watcher of the pre-existing connection e), lP|lQ (a stale
      reap: a second reapPeer for an older connection that died long ago), kE (the pre-existing connection e dies
      for a reason outside the negotiation; its close-watchers become due). closed: lower case = closed by the
      negotiation (or by a reap such a close caused), upper case = closed by the environment: a stale reap or the
      death of e (or a reap it caused). eP/eQ (only for sides that cached e initially): watch = the watcher still waits, reaped.
      DIFF: differs from the Lean model run with the generated table. SPEC: the reported final state violates
      no-split-brain / reused-never-closed / cache-new-only-if-peer-does (decided from the reported state alone).
  win <preP> <preQ> <step,step,…> => P=<entry>;Q=<entry>;closed=<conns>;Pc=<r>;Qc=<r>
      ONE interleaving (one dial; P dials c; both peers cache e) executed by two REAL overlay.QUIC transports: the
      negotiation streams are relayed through the harness, which delivers each cache-status report when the schedule
      says that the receiving end decides, and lets e die (kE, then both close-watchers eP, eQ) in between; the state
      is reported once everything has settled (all due reaps done). closed: lower case = closed with the
      negotiation's application error codes (508 / 406), upper case = closed in any other way.
      SPEC: the reported state violates the property (decided from the reported state alone). DIFF: caches,
      results or the set of closed connections differ from the Lean model run of the same schedule (plus the reaps
      that are due after it).
  watch <dir> <reused> => returned=…,negotiated=…                  which close-watchers (→ reapPeer) the CURRENT
      handleIncoming / handleOutgoing start once reuseConnection returned: for the connection it returned, for the
      negotiated connection when another one was returned (overlay/transport.go; compared with the Gen table)
  redial <preP> <preQ> => P=<entry>;Q=<entry>;closed=<conns>;Pc=<r>
      two REAL overlay.QUIC transports with their real accept loops share the cached connection e (a real DialStream by
      P or by Q); then P dials a further connection c to Q's listener (what getCachedConnection does when its cache
      check raced with the cache being populated / a second caller) and runs the real handleOutgoing on it, Q's accept
      loop runs the real handleIncoming; the harness does NOTHING else (no environment event), waits until the
      losing connection is closed and everything has settled, and reports the caches, what P's end returned and which
      connections are closed (lower case: 508 / 406, upper case: any other way). SPEC: judged from the reported state
      alone, and - nothing but the negotiation happened - EVERY close counts as a close by the negotiation.
      DIFF: differs from the Lean model run sPc,sQc,dPc,dQc (+ the due reaps). Pc=cut (P's end never decided: Q's
      decision closed c with 508 before P's end had read Q's report) is accepted where the model closes c.
  table => unreadable:<why>       the current source is not in the shape `extract c41-lines` understands (always DIFF)
  live <trial> => <outcome>                                        real overlay.QUIC transports, simultaneous dials
  relive <trial> => <outcome>     real transports: connect, the connection dies, reconnect the other way round,
      then a late second reap of the dead connection; SPEC: afterwards one peer caches a live connection that the
      other peer does not cache (decided from the reported caches alone)
-/
namespace Specter.C41
open Specter.Util Gen.C41

def dirStr : Dir → String | .incoming => "in" | .outgoing => "out"
def dirLong : Dir → String | .incoming => "incoming" | .outgoing => "outgoing"
def connStr : Conn → String | .e => "e" | .c => "c" | .d => "d"
def entryStr : Entry → String
  | none => "-"
  | some (x, d) => connStr x ++ ":" ++ dirStr d

def parseDirLong (s : String) : Option Dir :=
  if s = "incoming" then some .incoming else if s = "outgoing" then some .outgoing else none
def parseEntry (s : String) : Option Entry :=
  if s = "-" then some none else
  match s.splitOn ":" with
  | [x, d] =>
    let x := if x = "e" then some Conn.e else if x = "c" then some Conn.c else if x = "d" then some Conn.d else none
    let d := if d = "in" then some Dir.incoming else if d = "out" then some Dir.outgoing else none
    match x, d with
    | some x, some d => some (some (x, d))
    | _, _ => none
  | _ => none

def parseProc (s : String) : Option Proc :=
  if s = "Pc" then some .Pc else if s = "Qc" then some .Qc else if s = "Qd" then some .Qd else if s = "Pd" then some .Pd else none
def parseStep (s : String) : Option Step :=
  let k := (s.take 1).toString
  let rest := (s.drop 1).toString
  if s = "kE" then some Step.kill else
  if k = "e" ∨ k = "l" then
    let x := if rest = "P" then some Side.P else if rest = "Q" then some Side.Q else none
    x.map fun x => if k = "e" then Step.reapE x else Step.late x
  else
  match parseProc rest with
  | some i => if k = "s" then some (.snap i) else if k = "d" then some (.dec i) else if k = "r" then some (.reap i) else none
  | none => none

def resStr : PC → String
  | .idle => "idle"
  | .snapped _ _ => "snapped"
  | .done _ r _ reaped =>
    (match r with
     | .reused none => "reused:-"
     | .reused (some x) => "reused:" ++ connStr x
     | .fresh => "fresh"
     | .err => "err") ++ (if reaped then "+reaped" else "")

def closedStr (s : St) : String :=
  let one (c : Cl) (lo up : String) : String := match c with | .open => "" | .neg => lo | .late => up
  let r := one s.clE "e" "E" ++ one s.clC "c" "C" ++ one s.clD "d" "D"
  if r = "" then "-" else r

/-- `pre` = the initial caches: one `e<side>` field per side that cached `e` initially (it runs a close-watcher) -/
def stStr (pre : Entry × Entry) (s : St) : String :=
  let w (b : Bool) : String := if b then "watch" else "reaped"
  s!"P={entryStr s.cacheP};Q={entryStr s.cacheQ};closed={closedStr s};Pc={resStr s.pPc};Qc={resStr s.pQc};Qd={resStr s.pQd};Pd={resStr s.pPd}"
    ++ (if pre.1.isSome then ";eP=" ++ w s.watchP else "") ++ (if pre.2.isSome then ";eQ=" ++ w s.watchQ else "")

/-- the reaps that are due, until none is left (what the goroutines of the real transports do by themselves) -/
def settle (s : St) : St :=
  let due : List Step := allProcs.map .reap ++ [.reapE .P, .reapE .Q]
  (List.range 4).foldl (fun s _ => run genTable s due) s

/-- `win` lines: what two real transports can report -/
def winRes : PC → String
  | .done _ (.reused none) _ _ => "reused:-"
  | .done _ (.reused (some x)) _ _ => "reused:" ++ connStr x
  | .done _ .fresh _ _ => "fresh"
  | .done _ .err _ _ => "err"
  | .snapped _ _ => "snapped"
  | .idle => "idle"
def winStr (s : St) : String :=
  s!"P={entryStr s.cacheP};Q={entryStr s.cacheQ};closed={closedStr s};Pc={winRes s.pPc};Qc={winRes s.pQc}"

def boolS (b : Bool) : String := if b then "true" else "false"
def actStr (a : Act) : String :=
  let st := match a.store with | .no => "no" | .fresh => "fresh" | .cache => "cache"
  let rt := match a.ret with | .cache => "cache" | .fresh => "fresh" | .none => "none"
  let er := match a.err with | .nil => "nil" | .retry => "retry" | .other => "other"
  s!"reload={boolS a.reload},closeFresh={boolS a.closeFresh},closeCache={boolS a.closeCache},store={st},del={boolS a.del},ret={rt},reused={boolS a.reused},err={er}"

def field (rhs key : String) : String :=
  match (rhs.splitOn ";").filter (·.startsWith (key ++ "=")) with
  | f :: _ => (f.drop (key.length + 1)).toString
  | [] => "?"

/-- is the reported state final (all negotiations finished, all due reaps done)? decided from the report alone -/
def reportedFinal (dual : Bool) (rhs : String) : Bool :=
  let closed := (field rhs "closed").toLower      -- closed by whatever
  let isIn (x : String) : Bool := (closed.splitOn x).length > 1
  let ok (k conn : String) (active : Bool) : Bool :=
    let r := field rhs k
    if !active then true
    else if r = "idle" ∨ r = "snapped" ∨ r = "?" then false
    else if r = "fresh" ∧ isIn conn then false     -- a stored connection was closed: its reap is still due
    -- (`fresh+reaped` / `reused:x+reaped`: the end's close-watcher has run)
    else true
  -- the close-watcher of a closed pre-existing connection still has to reap
  let watcherDone (k : String) : Bool := !(field rhs k = "watch" && isIn "e")
  ok "Pc" "c" true && ok "Qc" "c" true && ok "Qd" "d" dual && ok "Pd" "d" dual && watcherDone "eP" && watcherDone "eQ"

/-- the property, decided from the reported final state alone (`closed`: only lower-case letters are closes by
the negotiation) -/
def specOf (rhs : String) (crossExempt : Bool := false) : Option String :=
  let connOf (e : String) : String := ((e.splitOn ":").headD "-")
  let p := connOf (field rhs "P")
  let q := connOf (field rhs "Q")
  let closed := field rhs "closed"
  -- (a result may carry the suffix `+reaped`: the end's close-watcher has run)
  let results := ["Pc", "Qc", "Qd", "Pd"].map fun k => (k, ((field rhs k).splitOn "+").headD "")
  if p ≠ "-" ∧ q ≠ "-" ∧ p ≠ q then some s!"split brain: P caches {p}, Q caches {q}"
  else if (p = "c" ∨ p = "d") ∧ q ≠ p then some s!"P caches the new connection {p} but Q caches {q}"
  else if (q = "c" ∨ q = "d") ∧ p ≠ q then some s!"Q caches the new connection {q} but P caches {p}"
  else
    -- both peers stored their own fresh connection of the simultaneous open (the cross store)
    let stored (k : String) : Bool := (field rhs k).startsWith "fresh"
    let cross := (stored "Pc" && stored "Qd") || (stored "Pd" && stored "Qc")
    if crossExempt && cross then none else
    match results.filter fun (_, r) => r.startsWith "reused:" ∧ (closed.splitOn ((r.drop 7).toString)).length > 1 ∧ r ≠ "reused:-" with
    | (k, r) :: _ => some s!"{k} got {r} but that connection was closed by the negotiation (closed={closed})"
    | [] => none

/-- `relive` lines report, after the late reap and after the reaps it causes had time to run,
`…;cacheA=<-|open|closed>;cacheB=<-|open|closed>;same=<yes|no|n/a>;redial=<ok|…>`.
The property: a peer caches a live connection only if the other peer caches the same one. -/
def reliveVerdict (rhs : String) : Verdict :=
  if rhs.startsWith "setup:" then .ok else       -- the scenario could not be set up (validated only)
  let a := field rhs "cacheA"
  let b := field rhs "cacheB"
  let same := field rhs "same"
  if a = "?" ∨ b = "?" ∨ same = "?" then .bad "relive fields"
  else if a = "open" ∧ b ≠ "open" then .spec s!"after the late reap A caches a live connection to B but B caches {b}"
  else if b = "open" ∧ a ≠ "open" then .spec s!"after the late reap B caches a live connection to A but A caches {a}"
  else if a = "open" ∧ b = "open" ∧ same ≠ "yes" then .spec "after the late reap the peers cache different live connections"
  else .ok

def drvStep (_ : Unit) (toks : List String) (rhs : String) : Unit × Verdict :=
  match toks with
  | ["reset"] => ((), .ok)
  | ["snap", c, cd, d] =>
    match parseBool c, parseDirLong cd, parseDirLong d with
    | some c, some cd, some d =>
      let r := Gen.C41.snapshot c cd d
      let m := (match r.1 with | .cached => "cached" | .fresh => "fresh") ++ "," ++ dirLong r.2
      if m = rhs then ((), .ok) else ((), .diff m)
    | _, _, _ => ((), .bad "snap args")
  | ["leaf", ps, pd, c, cd, d, rc, rcd] =>
    let ps := if ps = "cached" then some CState.cached else if ps = "fresh" then some CState.fresh else none
    match ps, parseDirLong pd, parseBool c, parseDirLong cd, parseDirLong d, parseBool rc, parseDirLong rcd with
    | some ps, some pd, some c, some cd, some d, some rc, some rcd =>
      let m := actStr (Gen.C41.decide ps pd c cd d rc rcd)
      if m = rhs then ((), .ok) else ((), .diff m)
    | _, _, _, _, _, _, _ => ((), .bad "leaf args")
  | ["sched", dual, pp, pq, steps] =>
    match parseEntry pp, parseEntry pq, (if steps = "-" then some [] else (steps.splitOn ",").mapM parseStep) with
    | some pp, some pq, some l =>
      -- Reused-never-closed is judged unconditionally on the schedules without an environment event. With a stale
      -- reap or the death of the pre-existing connection the cross store of a simultaneous open (both peers stored
      -- their own fresh connection - the one failure mode of this clause, Props `reused_never_closed_unless_cross`,
      -- reported as a known finding on the schedules without environment event) comes back in further shapes (the
      -- event empties the caches before the dials start, or a stale reap evicts a stored connection between the two
      -- decisions of a side); it is exempted there exactly as in the theorem.
      let crossExempt := l.any fun e => match e with | .late _ => true | .kill => pp.isSome || pq.isSome | _ => false
      match (if reportedFinal (dual = "1") rhs then specOf rhs crossExempt else none) with
      | some w => ((), .spec w)
      | none =>
        let m := stStr (pp, pq) (run genTable (init (dual = "1") (pp, pq) (true, true) true) l)
        if m = rhs then ((), .ok) else ((), .diff m)
    | _, _, _ => ((), .bad "sched args")
  | ["win", pp, pq, steps] =>
    if rhs.startsWith "setup:" then ((), .ok) else     -- the scenario could not be set up (validated only)
    match parseEntry pp, parseEntry pq, (steps.splitOn ",").mapM parseStep with
    | some pp, some pq, some l =>
      -- the harness reports a settled state; one dial, no stale reap: the property is judged unconditionally
      match specOf rhs with
      | some w => ((), .spec w)
      | none =>
        let s := settle (run genTable (init false (pp, pq) (false, false) true) l)
        let same := ["P", "Q", "Pc", "Qc"].all (fun k => field rhs k == field (winStr s) k) &&
          (field rhs "closed").toLower == (closedStr s).toLower
        if same then ((), .ok) else ((), .diff (winStr s))
    | _, _, _ => ((), .bad "win args")
  | ["redial", pp, pq] =>
    if rhs.startsWith "setup:" then ((), .ok) else     -- the scenario could not be set up (validated only)
    match parseEntry pp, parseEntry pq with
    | some pp, some pq =>
      -- nothing but the negotiation happened: every close is a consequence of the negotiation
      let closedAll := (field rhs "closed").toLower
      let judged := s!"P={field rhs "P"};Q={field rhs "Q"};closed={closedAll};Pc={field rhs "Pc"}"
      match specOf judged with
      | some w => ((), .spec (w ++ " - a further dial between two peers that share a cached connection, no environment event: every close is the negotiation's"))
      | none =>
        let s := settle (run genTable (init false (pp, pq)) [.snap .Pc, .snap .Qc, .dec .Pc, .dec .Qc])
        -- `Pc=cut`: P's end never decided, the other end's decision closed c (508) before P's end had read the
        -- report - possible only where the model says that c loses and is closed by the negotiation
        let cut := field rhs "Pc" == "cut" && (winRes s.pPc).startsWith "reused:" && s.clC == .neg
        let same := ["P", "Q"].all (fun k => field rhs k == field (winStr s) k) &&
          (cut || field rhs "Pc" == field (winStr s) "Pc") && closedAll == (closedStr s).toLower
        if same then ((), .ok) else ((), .diff (winStr s))
    | _, _ => ((), .bad "redial args")
  | ["watch", d, ru] =>
    match parseDirLong d, parseBool ru with
    | some d, some ru =>
      let a := Gen.C41.watch d ru
      let m := s!"returned={boolS a.returned},negotiated={boolS a.negotiated}"
      if m = rhs then ((), .ok) else ((), .diff m)
    | _, _ => ((), .bad "watch args")
  | ["reap", ld] =>
    match parseBool ld with
    | some ld =>
      let a := Gen.C41.reap ld
      let m := s!"del={boolS a.del},closeCached={boolS a.closeCached},closeTrigger={boolS a.closeTrigger}"
      if m = rhs then ((), .ok) else ((), .diff m)
    | none => ((), .bad "reap args")
  | ["table"] =>
    -- the harness could not read the decision code (extract c41-lines failed): the table part of the correspondence
    -- is gone; the scenarios with real transports that follow are still judged
    ((), .diff "readable: the generated table is the translation of a decision code that extract c41-lines can read")
  | "live" :: _ =>
    if rhs.startsWith "ok" then ((), .ok) else ((), .spec rhs)
  | "relive" :: _ => ((), reliveVerdict rhs)
  | _ => ((), .bad "unknown op")

def main : IO Unit := runLoop () drvStep

end Specter.C41
