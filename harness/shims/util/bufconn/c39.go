//go:build verif

package bufconn

import (
	"errors"
	"io"
	"net"
	"time"
)

// VerifPipe exposes one unexported `pipe` (one direction of BufferedPipe) to the C39 harness.
// Only accessors: every operation goes through the real methods.
type VerifPipe struct {
	p *pipe
	c *conn // loopback conn over the same pipe: gives the real SetRead/WriteDeadline
}

func VerifNewPipe(sz int) *VerifPipe {
	p := newPipe(sz)
	return &VerifPipe{p: p, c: &conn{p, p}}
}

func (v *VerifPipe) Read(b []byte) (int, error)  { return v.p.Read(b) }
func (v *VerifPipe) Write(b []byte) (int, error) { return v.p.Write(b) }
func (v *VerifPipe) Close()                      { v.p.Close() }
func (v *VerifPipe) CloseWrite()                 { v.p.closeWrite() }
func (v *VerifPipe) SetReadDeadline(t time.Time)  { v.c.SetReadDeadline(t) }
func (v *VerifPipe) SetWriteDeadline(t time.Time) { v.c.SetWriteDeadline(t) }

// State returns r, w, len(buf) and the flags under the pipe mutex.
func (v *VerifPipe) State() (r, w, ln int, full, empty, rto, wto bool) {
	v.p.mu.Lock()
	defer v.p.mu.Unlock()
	return v.p.r, v.p.w, len(v.p.buf), v.p.full(), v.p.empty(), v.p.rtimedout, v.p.wtimedout
}

// VerifErr maps the package's errors to a small enum.
func VerifErr(err error) string {
	var ne net.Error
	switch {
	case err == nil:
		return "ok"
	case errors.Is(err, io.ErrClosedPipe):
		return "closed"
	case errors.Is(err, io.EOF):
		return "eof"
	case errors.As(err, &ne) && ne.Timeout():
		return "timeout"
	}
	return "other"
}
