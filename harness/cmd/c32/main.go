// C32 correspondence: real spec/pki subjects + ExtractCertificateIdentity and the real pki.Server
// (RequestCertificate / RenewCertificate) with a throw-away client CA, against the Lean model and the
// statement-level oracle.
//
//	mk2 <id> <hash> <base64url(hash)>            => <CommonName>
//	mk1 <id> <token>                             => <CommonName>
//	extract <cn> <issued>                        => ok,<id>,<token>,<v1|v2> | err,format | err,unknown | panic
//	uniq <cnA> <issuedA> <cnB> <issuedB>         => <extract result A>;<extract result B>
//
// <issued> says how the subject was built: `-` hand-made (no statement about it), `<id>` by MakeSubjectV2(id, hash),
// `v1,<id>,<hex token>` by MakeSubjectV1(id, token).  For issued subjects the oracle demands the identity of the statement
// (v2: token = whole subject; v1: token = the whole legacy token, whatever it contains), `uniq` presents two issued subjects
// (same id, related tokens: shared prefixes up to a separator, one a prefix of the other, v1 against v2 text) and demands
// distinct identities for distinct subjects.
//	req <pow verdict> <pub> <sha256(pub)> <base64url(sha256 pub)>
//	                                             => ok,<cn>,<cert key>,<verifies under CA>,<identity id>,<identity token>,<version> | err,<pow verdict>
//	renew <e|g|p: der empty/garbage/parsed> <verifies under CA> <cn> <version by the real Extract | err | panic> <pow verdict>
//	      <proof key> <cert ed25519 key | none> <chain>
//	                                             => ok,<new cn>,<new key>,<verifies under CA>,<raw subject identical> | err,<kind> | panic
//
// <chain> describes the server's ClientCA (a tls.Certificate, i.e. a chain of DER blobs) as seen by the presented
// certificate: `-` for an empty chain, else one letter per element: n = not a parseable certificate, t / f = the presented
// certificate verifies / does not verify (ClientAuth) with that element as the ONLY root.  "verifies under CA" always means:
// with the client CA certificate (element 0) as the only root.  The servers under test: a single self-signed client CA; a
// client CA that is an intermediate with its root bundled; a three-level bundle; a bundle with an unrelated certificate; a
// bundle with a garbage tail; an unparsable / empty ClientCA.
//
// x509 verification, sha256, base64, ed25519 and the proof-of-work verdict (real pow.VerifySolution with the
// server's parameters, evaluated right before and right after the server call) are inputs of the model.
package main

import (
	"bytes"
	"context"
	"crypto/ecdsa"
	"crypto/ed25519"
	"crypto/elliptic"
	"crypto/rand"
	"crypto/sha256"
	"crypto/tls"
	"crypto/x509"
	"crypto/x509/pkix"
	"encoding/base64"
	"fmt"
	"math/big"
	"strconv"
	"strings"
	"time"

	"github.com/twitchtv/twirp"
	pkiserver "go.miragespace.co/specter/pki"
	"go.miragespace.co/specter/spec/pki"
	"go.miragespace.co/specter/spec/pow"
	"go.miragespace.co/specter/spec/protocol"
	"go.uber.org/zap"
	"verif/harness/hlib"
)

var r *hlib.Run
var rng *hlib.Rng

var caSerial int64 = 1233

// a CA certificate named cn with a fresh ed25519 key: self-signed when parent == nil, else issued by parent
func genCAUnder(cn string, parent *tls.Certificate) (tls.Certificate, *x509.Certificate) {
	caSerial++
	tpl := &x509.Certificate{
		SerialNumber: big.NewInt(caSerial), Subject: pkix.Name{CommonName: cn},
		NotBefore: time.Now().Add(-time.Hour), NotAfter: time.Now().AddDate(10, 0, 0), IsCA: true,
		ExtKeyUsage:           []x509.ExtKeyUsage{x509.ExtKeyUsageClientAuth, x509.ExtKeyUsageServerAuth},
		KeyUsage:              x509.KeyUsageDigitalSignature | x509.KeyUsageCertSign,
		BasicConstraintsValid: true,
	}
	pub, priv, err := ed25519.GenerateKey(rand.Reader)
	if err != nil {
		panic(err)
	}
	signer, signKey := tpl, any(priv)
	if parent != nil {
		signer, _ = x509.ParseCertificate(parent.Certificate[0])
		signKey = parent.PrivateKey
	}
	der, err := x509.CreateCertificate(rand.Reader, tpl, signer, pub, signKey)
	if err != nil {
		panic(err)
	}
	c, _ := x509.ParseCertificate(der)
	return tls.Certificate{Certificate: [][]byte{der}, PrivateKey: priv}, c
}

func genCA(cn string) (tls.Certificate, *x509.Certificate) { return genCAUnder(cn, nil) }

// one server configuration: `ca` is what the server holds (ClientCA: client CA first, then whatever is bundled behind it);
// `bundled` are the issuers (with their keys) of the certificates bundled behind the client CA; `sibling` is a CA under the
// same root that is NOT part of the bundle.
type setup struct {
	name    string
	ca      tls.Certificate
	bundled []tls.Certificate
	sibling *tls.Certificate
}

func bundle(first tls.Certificate, rest ...tls.Certificate) tls.Certificate {
	out := tls.Certificate{Certificate: [][]byte{first.Certificate[0]}, PrivateKey: first.PrivateKey}
	for _, c := range rest {
		out.Certificate = append(out.Certificate, c.Certificate[0])
	}
	return out
}

func makeSetups() []*setup {
	single, _ := genCA("verif client ca")
	// client CA is an intermediate; the PEM bundle (as tls.X509KeyPair loads it) carries its root behind it
	root2, _ := genCA("verif root")
	ca2, _ := genCAUnder("verif client ca", &root2)
	sib2, _ := genCAUnder("verif client ca", &root2) // same name, same root, other key, not bundled
	// three levels
	root3, _ := genCA("verif root")
	mid3, _ := genCAUnder("verif mid", &root3)
	ca3, _ := genCAUnder("verif client ca", &mid3)
	sib3, _ := genCAUnder("verif other ca", &mid3)
	// a self-signed client CA with an unrelated certificate in the same file
	ca4, _ := genCA("verif client ca")
	other4, _ := genCA("verif client ca")
	// garbage behind the client CA
	ca5, _ := genCA("verif client ca")
	g5 := bundle(ca5)
	g5.Certificate = append(g5.Certificate, rng.Bytes(64))
	return []*setup{
		{name: "single", ca: single},
		{name: "chain2", ca: bundle(ca2, root2), bundled: []tls.Certificate{root2}, sibling: &sib2},
		{name: "chain3", ca: bundle(ca3, mid3, root3), bundled: []tls.Certificate{mid3, root3}, sibling: &sib3},
		{name: "unrelated", ca: bundle(ca4, other4), bundled: []tls.Certificate{other4}},
		{name: "garbage-tail", ca: g5},
	}
}

func use(s *setup) {
	ca = s.ca
	caCert = nil
	if len(ca.Certificate) > 0 {
		caCert, _ = x509.ParseCertificate(ca.Certificate[0])
	}
	server = &pkiserver.Server{Logger: zap.NewNop(), ClientCA: ca}
	cur = s
}

var (
	ca, foreign tls.Certificate
	caCert      *x509.Certificate
	server      *pkiserver.Server
	powParams   pow.Parameters
	errTok      = map[string]string{}
	cur         *setup
)

// does c verify (ClientAuth) with `root` as the only trust anchor
func verifiesUnder(c, root *x509.Certificate) bool {
	if c == nil || root == nil {
		return false
	}
	pool := x509.NewCertPool()
	pool.AddCert(root)
	_, err := c.Verify(x509.VerifyOptions{Roots: pool, KeyUsages: []x509.ExtKeyUsage{x509.ExtKeyUsageClientAuth}})
	return err == nil
}

// "issued by the client CA": verifies with the client CA certificate (ClientCA.Certificate[0]) as the only root
func verifiesUnderCA(c *x509.Certificate) bool { return verifiesUnder(c, caCert) }

// the server's ClientCA chain as seen by the presented certificate (nil = not parsed)
func chainTok(old *x509.Certificate) string {
	if len(ca.Certificate) == 0 {
		return "-"
	}
	var out []string
	for _, der := range ca.Certificate {
		el, err := x509.ParseCertificate(der)
		switch {
		case err != nil:
			out = append(out, "n")
		case verifiesUnder(old, el):
			out = append(out, "t")
		default:
			out = append(out, "f")
		}
	}
	return strings.Join(out, ",")
}

func classifyPow(err error) string {
	if err == nil {
		return "ok"
	}
	m := err.Error()
	for _, p := range [][2]string{
		{"public key length", "publen"}, {"signature length", "siglen"}, {"solution is required", "nosolution"},
		{"not a valid signature", "badsig"}, {"could not split", "parse-parts"}, {"expected tag", "parse-tag"},
		{"bits of difficulty", "parse-difficulty"}, {"invalid date", "parse-date"}, {"wrong difficulty", "difficulty"},
		{"zero-value", "zeroexp"}, {"too far", "toofar"}, {"expired hashcash", "v-expired"},
		{"subject is invalid", "v-subject"}, {"algorithm is invalid", "v-alg"}, {"solution is not valid", "v-solution"},
	} {
		if strings.Contains(m, p[0]) {
			return p[1]
		}
	}
	return "other"
}

func powVerdict(p *protocol.ProofOfWork) (s string) {
	defer func() {
		if recover() != nil {
			s = "panic"
		}
	}()
	_, err := pow.VerifySolution(p, powParams)
	return classifyPow(err)
}

func subjectOf(pub []byte) ([]byte, string) {
	h := sha256.Sum256(pub)
	return h[:], base64.URLEncoding.EncodeToString(h[:])
}

func extractTok(cn string) (res string, ver string) {
	defer func() {
		if recover() != nil {
			res, ver = "panic", "panic"
		}
	}()
	id, err := pki.ExtractCertificateIdentity(&x509.Certificate{Subject: pkix.Name{CommonName: cn}})
	if err != nil {
		if strings.Contains(err.Error(), "invalid subject format") {
			return "err,format", "err"
		}
		if strings.Contains(err.Error(), "unknown subject") {
			return "err,unknown", "err"
		}
		return "err,other", "err"
	}
	return fmt.Sprintf("ok,%d,%s,%s", id.ID, hlib.Hex(id.Token), string(id.Version)), string(id.Version)
}

func doExtract(cn string, issued string) {
	res, _ := extractTok(cn)
	r.Emit("extract "+hlib.HexS(cn)+" "+issued, res)
	r.Case("x" + cn)
	r.Count("extract:" + strings.SplitN(res, ",", 3)[0] + "," + lastField(res))
}

func lastField(s string) string {
	p := strings.Split(s, ",")
	return p[len(p)-1]
}

func doMk2(id uint64, hash []byte) string {
	cn := pki.MakeSubjectV2(id, hash).CommonName
	r.Emit(fmt.Sprintf("mk2 %d %s %s", id, hlib.Hex(hash), hlib.HexS(base64.URLEncoding.EncodeToString(hash))), hlib.HexS(cn))
	r.Case("m2" + cn)
	r.Count("mk2")
	return cn
}

func doMk1(id uint64, token string) string {
	cn := pki.MakeSubjectV1(id, token).CommonName
	r.Emit(fmt.Sprintf("mk1 %d %s", id, hlib.HexS(token)), hlib.HexS(cn))
	r.Case("m1" + cn)
	r.Count("mk1")
	return cn
}

var idPool = []uint64{0, 1, 9, 10, 99, 100, 1<<48 - 1, 1 << 48, 1<<63 - 1, 1 << 63, 1<<64 - 1}

func randID() uint64 {
	if rng.Chance(30) {
		return hlib.Pick(rng, idPool)
	}
	return rng.U64() >> uint(rng.Intn(64))
}

var cnParts = []string{"v1", "v2", "v3", "V2", "", "0", "1", "42", "007", "+1", "-1", "1_0", " 1", "x", "18446744073709551615", "18446744073709551616",
	"99999999999999999999999", "a:b", ":", "tok", "dG9r", "=", "v2:1"}

func issuedV1(id uint64, tok string) string {
	return fmt.Sprintf("v1,%d,%s", id, hlib.HexS(tok))
}

// legacy (v1) tokens are free text: pieces of the usual pool and random printable / base64 text, joined by any of a few
// delimiters — the subject separator among them — so that tokens with 0, 1, 2, … separators, empty pieces, leading and
// trailing separators all occur
func legacyToken(g *hlib.Rng) string {
	k := 1 + g.Intn(4)
	var b strings.Builder
	for j := 0; j < k; j++ {
		if j > 0 {
			b.WriteString(hlib.Pick(g, []string{":", ":", ":", "::", "/", ".", "-", "@", ""}))
		}
		switch g.Intn(4) {
		case 0:
			b.WriteString(hlib.Pick(g, cnParts))
		case 1:
			b.WriteString(base64.URLEncoding.EncodeToString(g.Bytes(g.Intn(9))))
		case 2:
			b.WriteString(hlib.Pick(g, []string{"tenant", "alice", "bob", "org", "edge", "client", "a", "b", ""}))
		default:
			n := g.Intn(6)
			for i := 0; i < n; i++ {
				b.WriteByte("abcxyz019:_-"[g.Intn(12)])
			}
		}
	}
	return b.String()
}

// a token related to t: another last piece, a piece more, a piece less, a separator more, or an unrelated one
func relatedToken(g *hlib.Rng, t string) string {
	seps := []int{}
	for i := 0; i < len(t); i++ {
		if t[i] == ':' {
			seps = append(seps, i)
		}
	}
	switch g.Intn(6) {
	case 0:
		if len(seps) > 0 {
			return t[:seps[g.Intn(len(seps))]+1] + legacyToken(g)
		}
		return t + ":" + legacyToken(g)
	case 1:
		return t + ":" + hlib.Pick(g, cnParts)
	case 2:
		if len(seps) > 0 {
			return t[:seps[g.Intn(len(seps))]]
		}
		return t + ":"
	case 3:
		return t + hlib.Pick(g, []string{":", "::", "x", "="})
	case 4:
		return t
	default:
		return legacyToken(g)
	}
}

type issuedSubject struct{ cn, how string }

func doUniq(a, b issuedSubject) {
	ra, _ := extractTok(a.cn)
	rb, _ := extractTok(b.cn)
	r.Emit("uniq "+hlib.HexS(a.cn)+" "+a.how+" "+hlib.HexS(b.cn)+" "+b.how, ra+";"+rb)
	r.Case("u" + a.cn + "\x00" + b.cn)
	same := "distinct"
	if a.cn == b.cn {
		same = "same"
	}
	r.Count("uniq:" + same + "," + lastField(ra) + "," + lastField(rb))
}

// pairs of issued subjects; own random stream (derived from the seed) so that the older generators keep theirs
func genIssuedPairs(n int) {
	g := hlib.NewRng(r.Seed ^ 0xC32C32C32)
	mkV1 := func(id uint64, tok string) issuedSubject {
		cn := doMk1(id, tok)
		doExtract(cn, issuedV1(id, tok))
		return issuedSubject{cn, issuedV1(id, tok)}
	}
	mkV2 := func(id uint64, hash []byte) issuedSubject {
		cn := doMk2(id, hash)
		return issuedSubject{cn, strconv.FormatUint(id, 10)}
	}
	for i := 0; i < n; i++ {
		id := hlib.Pick(g, idPool)
		if g.Chance(60) {
			id = g.U64() >> uint(g.Intn(64))
		}
		id2 := id
		if g.Chance(15) {
			id2 = hlib.Pick(g, idPool)
		}
		switch g.Intn(6) {
		case 0, 1, 2: // two legacy tokens, related
			t := legacyToken(g)
			doUniq(mkV1(id, t), mkV1(id2, relatedToken(g, t)))
		case 3: // v2 against v2: same / other hash
			h := g.Bytes(g.Intn(40))
			h2 := h
			if g.Chance(70) {
				h2 = g.Bytes(g.Intn(40))
			}
			doUniq(mkV2(id, h), mkV2(id2, h2))
		case 4: // v1 whose token is (a piece of) a v2 subject, against that v2 subject
			b := mkV2(id, g.Bytes(g.Intn(40)))
			t := b.cn
			if g.Bool() {
				t = b.cn[strings.LastIndex(b.cn, ":")+1:]
			}
			doUniq(mkV1(id2, t), b)
		default: // v1 against v1 with the id digits moved into the token: "v1:1:2:x" is (1,"2:x"), never (12, "x")
			t := legacyToken(g)
			doUniq(mkV1(id, t), mkV1(id/10, strconv.FormatUint(id%10, 10)+":"+t))
		}
	}
}

func genSubjects(n int) {
	for i := 0; i < n; i++ {
		switch rng.Intn(5) {
		case 0:
			cn := doMk2(randID(), rng.Bytes(rng.Intn(40)))
			parts := strings.SplitN(cn, ":", 3)
			doExtract(cn, parts[1])
		case 1:
			tok := hlib.Pick(rng, cnParts)
			if rng.Bool() {
				tok = base64.URLEncoding.EncodeToString(rng.Bytes(rng.Intn(12)))
			}
			id := randID()
			doExtract(doMk1(id, tok), issuedV1(id, tok))
		case 2:
			k := rng.Intn(5)
			var ps []string
			for j := 0; j < k; j++ {
				ps = append(ps, hlib.Pick(rng, cnParts))
			}
			doExtract(strings.Join(ps, ":"), "-")
		case 3:
			doExtract(hlib.Pick(rng, []string{"v1", "v2"})+":"+hlib.Pick(rng, cnParts)+":"+hlib.Pick(rng, cnParts), "-")
		default:
			doExtract(string(rng.Bytes(rng.Intn(12))), "-")
		}
	}
}

// ---------- server ----------

func doReq(kind string, proof *protocol.ProofOfWork) []byte {
	pub := proof.GetPubKey()
	sh, b64 := subjectOf(pub)
	before := powVerdict(proof)
	var der []byte
	res := func() (s string) {
		defer func() {
			if recover() != nil {
				s = "panic"
			}
		}()
		resp, err := server.RequestCertificate(context.Background(), &protocol.CertificateRequest{Proof: proof})
		if err != nil {
			return "err," + classifyPow(err)
		}
		c, err := x509.ParseCertificate(resp.GetCertDer())
		if err != nil {
			return "err,unparsable"
		}
		der = resp.GetCertDer()
		key, _ := c.PublicKey.(ed25519.PublicKey)
		x, _ := extractTok(c.Subject.CommonName)
		if !strings.HasPrefix(x, "ok,") {
			x = "ok,0,-,none"
		}
		return "ok," + hlib.HexS(c.Subject.CommonName) + "," + hlib.Hex(key) + "," + hlib.B(verifiesUnderCA(c)) + x[2:]
	}()
	if powVerdict(proof) != before {
		r.Raw("# req skipped: proof verdict changed during the call (expiry boundary)")
		return der
	}
	r.Emit(strings.Join([]string{"req", before, hlib.Hex(pub), hlib.Hex(sh), hlib.HexS(b64)}, " "), res)
	r.Case("req" + hlib.Hex(pub) + hlib.Hex(proof.GetSignature()))
	r.Count("req:" + kind + ":" + strings.SplitN(res, ",", 2)[0] + ":" + before)
	return der
}

func classifyRenew(err error) string {
	if te, ok := err.(twirp.Error); ok && te.Code() == twirp.Internal {
		return "caparse" // the only internal errors: the client CA does not parse / cannot sign
	}
	m := err.Error()
	for _, p := range [][2]string{
		{"current_cert_der is required", "required"}, {"failed to parse certificate", "parse"},
		{"not issued by this CA", "notourca"}, {"failed to extract identity", "identity"},
		{"v1 certificates cannot be renewed", "v1"}, {"does not contain an ed25519", "noted25519"},
		{"proof does not match", "keymismatch"},
	} {
		if strings.Contains(m, p[0]) {
			return p[1]
		}
	}
	return "pow-" + classifyPow(err)
}

func doRenew(kind string, der []byte, proof *protocol.ProofOfWork) {
	state, caOK, cn, xver, certKey := "p", false, "", "err", "none"
	var old *x509.Certificate
	if len(der) == 0 {
		state = "e"
	} else if c, err := x509.ParseCertificate(der); err != nil {
		state = "g"
	} else {
		old = c
		caOK = verifiesUnderCA(c)
		cn = c.Subject.CommonName
		_, xver = extractTok(cn)
		if k, ok := c.PublicKey.(ed25519.PublicKey); ok {
			certKey = hlib.Hex(k)
		}
	}
	before := powVerdict(proof)
	res := func() (s string) {
		defer func() {
			if recover() != nil {
				s = "panic"
			}
		}()
		resp, err := server.RenewCertificate(context.Background(), &protocol.CertificateRenewalRequest{Proof: proof, CurrentCertDer: der})
		if err != nil {
			return "err," + classifyRenew(err)
		}
		c, err := x509.ParseCertificate(resp.GetCertDer())
		if err != nil {
			return "err,unparsable"
		}
		key, _ := c.PublicKey.(ed25519.PublicKey)
		same := old != nil && bytes.Equal(c.RawSubject, old.RawSubject)
		return "ok," + hlib.HexS(c.Subject.CommonName) + "," + hlib.Hex(key) + "," + hlib.B(verifiesUnderCA(c)) + "," + hlib.B(same)
	}()
	if powVerdict(proof) != before {
		r.Raw("# renew skipped: proof verdict changed during the call (expiry boundary)")
		return
	}
	chain := chainTok(old)
	r.Emit(strings.Join([]string{"renew", state, hlib.B(caOK), hlib.HexS(cn), xver, before, hlib.Hex(proof.GetPubKey()), certKey, chain}, " "), res)
	r.Case("renew" + cur.name + kind + hlib.Hex(der[:min(len(der), 64)]) + hlib.Hex(proof.GetSignature()))
	if strings.HasPrefix(res, "ok,") {
		r.Count("renew:" + kind + ":ok")
	} else {
		r.Count("renew:" + kind + ":" + res)
	}
	r.Count("ca:" + cur.name + ":chain=" + chain + ":" + strings.SplitN(res, ",", 2)[0])
}

// certificate signed by `issuer` with full control over the template
func issue(issuer tls.Certificate, cn string, pub any, eku []x509.ExtKeyUsage, notAfter time.Time) []byte {
	parent, _ := x509.ParseCertificate(issuer.Certificate[0])
	tpl := &x509.Certificate{
		SerialNumber: big.NewInt(int64(rng.U64() >> 2)), Subject: pkix.Name{CommonName: cn},
		NotBefore: time.Now().Add(-time.Hour), NotAfter: notAfter, ExtKeyUsage: eku,
		KeyUsage: x509.KeyUsageDigitalSignature, BasicConstraintsValid: true,
	}
	der, err := x509.CreateCertificate(rand.Reader, tpl, parent, pub, issuer.PrivateKey)
	if err != nil {
		panic(err)
	}
	return der
}

func flipSig(p *protocol.ProofOfWork) *protocol.ProofOfWork {
	s := append([]byte{}, p.Signature...)
	s[rng.Intn(len(s))] ^= 1 << uint(rng.Intn(8))
	return &protocol.ProofOfWork{PubKey: p.PubKey, Signature: s, Solution: p.Solution}
}

type client struct {
	priv  ed25519.PrivateKey
	pub   ed25519.PublicKey
	proof *protocol.ProofOfWork
	der   []byte
}

func genServer(rounds int) {
	clientAuth := []x509.ExtKeyUsage{x509.ExtKeyUsageClientAuth}
	far := time.Now().AddDate(1, 0, 0)
	var prev *client
	for i := 0; i < rounds; i++ {
		priv := ed25519.NewKeyFromSeed(rng.Bytes(32))
		c := &client{priv: priv, pub: priv.Public().(ed25519.PublicKey)}
		req, err := pkiserver.CreateRequest(priv)
		if err != nil {
			r.Raw("# CreateRequest failed: " + err.Error())
			continue
		}
		c.proof = req.Proof
		c.der = doReq("valid", c.proof)
		if rng.Chance(50) {
			doReq("sig-flip", flipSig(c.proof))
		}
		if rng.Chance(30) {
			doReq("no-proof", nil)
			doReq("short-key", &protocol.ProofOfWork{PubKey: c.pub[:31], Signature: c.proof.Signature, Solution: c.proof.Solution})
		}
		if rng.Chance(30) { // proof re-signed by another key: subject in the stamp is not that key's hash
			_, p2, _ := ed25519.GenerateKey(rand.Reader)
			doReq("resigned", &protocol.ProofOfWork{PubKey: p2.Public().(ed25519.PublicKey), Signature: ed25519.Sign(p2, []byte(c.proof.Solution)), Solution: c.proof.Solution})
		}
		if c.der == nil {
			continue
		}
		if cert, err := x509.ParseCertificate(c.der); err == nil {
			parts := strings.SplitN(cert.Subject.CommonName, ":", 3)
			if len(parts) == 3 {
				doExtract(cert.Subject.CommonName, parts[1])
			}
		}
		cn := func() string { x, _ := x509.ParseCertificate(c.der); return x.Subject.CommonName }()
		doRenew("same-key", c.der, c.proof)
		if prev != nil {
			doRenew("other-key-proof", c.der, prev.proof)
			doRenew("other-cert", prev.der, c.proof)
		}
		for _, t := range []int{0, 1, 2, 3, 4, 5, 6, 7, 8, 9, 10} {
			if !rng.Chance(55) {
				continue
			}
			switch t {
			case 0:
				doRenew("foreign-ca", issue(foreign, cn, c.pub, clientAuth, far), c.proof)
			case 1:
				doRenew("self-signed", issue(tls.Certificate{Certificate: [][]byte{c.der}, PrivateKey: c.priv}, cn, c.pub, clientAuth, far), c.proof)
			case 2:
				doRenew("v1", issue(ca, pki.MakeSubjectV1(randID(), "oldtoken").CommonName, c.pub, clientAuth, far), c.proof)
				der, err := pki.GenerateCertificate(zap.NewNop(), ca, pki.IdentityRequest{PublicKey: c.pub, Subject: pki.MakeSubjectV1(randID(), hlib.Pick(rng, cnParts))})
				if err == nil {
					doRenew("v1", der, c.proof)
				}
			case 3:
				for _, s := range []string{"foo", "v3:1:x", "v2:abc:x", "v2::x", "v2:18446744073709551616:x", "v2:+1:x", "v1:x:y", "", "v2:1", "V2:1:x", "v2:18446744073709551615:x"} {
					if rng.Chance(40) {
						doRenew("odd-subject", issue(ca, s, c.pub, clientAuth, far), c.proof)
					}
				}
			case 4:
				doRenew("bad-proof", c.der, flipSig(c.proof))
				doRenew("no-proof", c.der, nil)
			case 5:
				doRenew("empty-der", nil, c.proof)
				doRenew("garbage-der", rng.Bytes(1+rng.Intn(200)), c.proof)
				doRenew("truncated-der", c.der[:len(c.der)-1-rng.Intn(20)], c.proof)
			case 6:
				ek, _ := ecdsa.GenerateKey(elliptic.P256(), rand.Reader)
				doRenew("ecdsa-cert", issue(ca, cn, &ek.PublicKey, clientAuth, far), c.proof)
			case 7:
				doRenew("server-auth-only", issue(ca, cn, c.pub, []x509.ExtKeyUsage{x509.ExtKeyUsageServerAuth}, far), c.proof)
				doRenew("expired-cert", issue(ca, cn, c.pub, clientAuth, time.Now().Add(-time.Minute)), c.proof)
			case 8: // CA-issued v2 subject naming another key hash: renewal keeps whatever the CA signed
				_, b := subjectOf(rng.Bytes(32))
				doRenew("v2-other-hash", issue(ca, "v2:"+strconv.FormatUint(randID(), 10)+":"+b, c.pub, clientAuth, far), c.proof)
			case 9: // renew the renewed certificate
				if resp, err := server.RenewCertificate(context.Background(), &protocol.CertificateRenewalRequest{Proof: c.proof, CurrentCertDer: c.der}); err == nil {
					doRenew("renewed-again", resp.GetCertDer(), c.proof)
				}
			case 10: // a certificate for ANOTHER key with this client's subject, proof by this client
				_, p2, _ := ed25519.GenerateKey(rand.Reader)
				doRenew("stolen-subject", issue(ca, cn, p2.Public(), clientAuth, far), c.proof)
			}
		}
		// certificates that chain to something bundled BEHIND the client CA in the server's ClientCA (its issuer, the root,
		// an unrelated certificate of the same file) or to a sibling CA: own key, own valid proof, v2 subject — everything
		// is right except the issuer
		for bi, b := range cur.bundled {
			if !rng.Chance(70) {
				continue
			}
			tag := "bundled" + strconv.Itoa(bi+1)
			switch rng.Intn(3) {
			case 0: // the very subject the client CA issued, re-issued by the bundled certificate
				doRenew(tag+"-same-subject", issue(b, cn, c.pub, clientAuth, far), c.proof)
			case 1: // the repository's own issuing routine with the bundled certificate as CA
				sh, _ := subjectOf(c.pub)
				if der, err := pki.GenerateCertificate(zap.NewNop(), b, pki.IdentityRequest{PublicKey: c.pub, Subject: pki.MakeSubjectV2(randID(), sh)}); err == nil {
					doRenew(tag+"-generated", der, c.proof)
				}
			default: // v2 subject naming some other hash
				_, h := subjectOf(rng.Bytes(32))
				doRenew(tag+"-v2-other-hash", issue(b, "v2:"+strconv.FormatUint(randID(), 10)+":"+h, c.pub, clientAuth, far), c.proof)
			}
			if rng.Chance(25) { // two deviations: bundled issuer AND a proof by another key
				if prev != nil {
					doRenew(tag+"-other-key-proof", issue(b, cn, c.pub, clientAuth, far), prev.proof)
				}
			}
		}
		if cur.sibling != nil && rng.Chance(50) {
			doRenew("sibling-ca", issue(*cur.sibling, cn, c.pub, clientAuth, far), c.proof)
		}
		prev = c
	}
}

// servers whose ClientCA has no usable first element: RenewCertificate must not renew anything (internal error / index panic);
// the presented certificates are genuine ones issued by `good`
func genBrokenCA(good *setup) {
	use(good)
	priv := ed25519.NewKeyFromSeed(rng.Bytes(32))
	req, err := pkiserver.CreateRequest(priv)
	if err != nil {
		r.Raw("# CreateRequest failed: " + err.Error())
		return
	}
	resp, err := server.RequestCertificate(context.Background(), req)
	if err != nil {
		r.Raw("# RequestCertificate failed: " + err.Error())
		return
	}
	der := resp.GetCertDer()
	for _, s := range []*setup{
		{name: "unparsable-ca", ca: tls.Certificate{Certificate: [][]byte{rng.Bytes(80), good.ca.Certificate[0]}, PrivateKey: good.ca.PrivateKey}},
		{name: "truncated-ca", ca: tls.Certificate{Certificate: [][]byte{good.ca.Certificate[0][:len(good.ca.Certificate[0])-3], good.ca.Certificate[0]}, PrivateKey: good.ca.PrivateKey}},
		{name: "empty-ca", ca: tls.Certificate{PrivateKey: good.ca.PrivateKey}},
	} {
		use(s)
		doRenew("genuine", der, req.Proof)
		doRenew("empty-der", nil, req.Proof)
		doRenew("garbage-der", rng.Bytes(1+rng.Intn(100)), req.Proof)
	}
	use(good)
}

func main() {
	r = hlib.Start()
	rng = hlib.NewRng(r.Seed)
	r.Rule = "subjects: MakeSubjectV1/V2 over boundary + random uint64 ids and random hashes, hand-made CommonNames (versions, signs, overflow, missing parts, arbitrary bytes); " +
		"pairs of issued subjects (legacy tokens built from pieces joined by separators incl. the subject separator, related by shared prefix / extra or missing piece; v2 pairs; v1 against v2) judged for identity uniqueness; " +
		"server: per round a fresh ed25519 key with a real difficulty-18 proof (CreateRequest), RequestCertificate with valid/tampered proofs, then RenewCertificate with ONE deviation each: " +
		"proof of another key, other certificate, foreign CA, self-signed, v1 subject, odd subjects, bad/no proof, empty/garbage DER, ECDSA certificate, wrong EKU, expired certificate. non-trivial = distinct op line"
	setups := makeSetups()
	foreign, _ = genCA("verif client ca") // same name, other key
	use(setups[0])
	powParams = pow.Parameters{Difficulty: pki.HashcashDifficulty, Expires: pki.HashcashExpires, GetSubject: func(pub ed25519.PublicKey) string {
		_, s := subjectOf(pub)
		return s
	}}
	if r.Replay != "" {
		for _, t := range r.ReplayLines() {
			switch t[0] {
			case "extract":
				if len(t) >= 3 {
					doExtract(string(hlib.UnHex(t[1])), t[2])
				}
			case "uniq":
				if len(t) >= 5 {
					doUniq(issuedSubject{string(hlib.UnHex(t[1])), t[2]}, issuedSubject{string(hlib.UnHex(t[3])), t[4]})
				}
			case "mk2":
				if len(t) >= 3 {
					id, _ := strconv.ParseUint(t[1], 10, 64)
					doMk2(id, hlib.UnHex(t[2]))
				}
			case "mk1":
				if len(t) >= 3 {
					id, _ := strconv.ParseUint(t[1], 10, 64)
					doMk1(id, string(hlib.UnHex(t[2])))
				}
			default:
				// req / renew need a live CA and an unexpired proof: re-run the scenario generator briefly instead
				genServer(3)
			}
		}
		r.Finish()
		return
	}
	nsub, rounds := 6000, 30
	if r.Thorough() {
		nsub, rounds = 100000, 400
	}
	genSubjects(nsub)
	genIssuedPairs(nsub / 4)
	// every configuration gets its share of the rounds; the order is drawn so that no configuration is always last
	share := []int{30, 25, 20, 15, 10}
	order := []int{0, 1, 2, 3, 4}
	for i := len(order) - 1; i > 0; i-- {
		j := rng.Intn(i + 1)
		order[i], order[j] = order[j], order[i]
	}
	for _, i := range order {
		use(setups[i])
		genServer(max(2, rounds*share[i]/100))
	}
	genBrokenCA(setups[0])
	r.Finish()
}
