import SpecterModel.C24.Model
import SpecterModel.C24.Gen
/-!
# C24 — Opening an existing SQLite database never damages its data

Theorems about `openDb Gen.facts` (the model of `sqlite3.New` = `migrate` + `prepareStatements`,
instantiated with the facts regenerated from the source on every run) over **every** database:
any `user_version : Int` (SQLite's is a signed 32-bit value, so negative ones exist too), any of the
2^5 present/absent combinations of the v1 objects, any rows of any type.
-/
namespace Specter.C24
open Gen

variable {ρ : Type}

/-- all four tables exist -/
def tablesPresent (db : Db ρ) : Prop := ∀ o ∈ Obj.tables, present db o = true
/-- the complete v1 schema (tables and index) exists -/
def complete (db : Db ρ) : Prop := ∀ o ∈ Obj.all, present db o = true
/-- every row of every object that existed is still there, in the same object -/
def rowsKept (db db' : Db ρ) : Prop := ∀ o rows, db.tab o = some rows → db'.tab o = some rows

theorem latest_facts : latest facts = 1 := by decide
theorem schemaVersion_is_latest : facts.schemaVersion = latest facts := by decide

/-- case analysis used by all proofs: four classes of `user_version` × 2^5 object subsets -/
macro "c24_split" db:ident : tactic => `(tactic| (
  rcases hk : Db.tab $db .keyTrackers with _ | rk <;>
  rcases hs : Db.tab $db .simpleEntries with _ | rs <;>
  rcases hp : Db.tab $db .prefixEntries with _ | rp <;>
  rcases hl : Db.tab $db .leaseEntries with _ | rl <;>
  rcases hx : Db.tab $db .idxHash with _ | rx))

macro "c24_simp" : tactic => `(tactic|
  simp_all [openDb, migrate, prepare, runMigrations, applyMigration, createAll, create, looksLikeV1, hasAnyV1,
    present, upd, facts, latest, tablesPresent, complete, rowsKept, Obj.tables, Obj.all])

/-- The decision table: `New` succeeds exactly for
`user_version = current` with the four tables, `user_version = 0` with all five objects (legacy) or
none of them (fresh), and negative `user_version` (every migration is applied with IF NOT EXISTS). -/
theorem open_outcome_table (db : Db ρ) :
    (openDb facts db).1 = .ok ↔
      (db.uv = 1 ∧ tablesPresent db) ∨ (db.uv = 0 ∧ (complete db ∨ ∀ o ∈ Obj.all, present db o = false)) ∨ db.uv < 0 := by
  by_cases h1 : db.uv = 1
  · c24_split db <;> c24_simp
  · by_cases h2 : db.uv > 1
    · have : ¬ db.uv = 0 := by omega
      have : ¬ db.uv < 0 := by omega
      c24_simp
    · by_cases h0 : db.uv = 0
      · c24_split db <;> c24_simp
      · have hn : db.uv < 0 := by omega
        have : ¬ (1 : Int) ≤ db.uv := by omega
        c24_split db <;> c24_simp

/-- A refused open leaves the database exactly as it was (version, schema, rows). In particular the
legacy stamp (`user_version := 1`, written outside a transaction) is never followed by a refusal. -/
theorem open_refuse_unchanged (db : Db ρ) (h : (openDb facts db).1 = .refuse) : (openDb facts db).2 = db := by
  by_cases h1 : db.uv = 1
  · c24_split db <;> c24_simp
  · by_cases h2 : db.uv > 1
    · c24_simp
    · by_cases h0 : db.uv = 0
      · c24_split db <;> c24_simp
      · have : ¬ (1 : Int) ≤ db.uv := by omega
        c24_split db <;> c24_simp

/-- A successful open ends at the current version with all four tables usable and every existing row
still in place. -/
theorem open_ok_preserves (db : Db ρ) (h : (openDb facts db).1 = .ok) :
    (openDb facts db).2.uv = facts.schemaVersion ∧ tablesPresent (openDb facts db).2 ∧
      rowsKept db (openDb facts db).2 := by
  by_cases h1 : db.uv = 1
  · c24_split db <;> c24_simp
  · by_cases h2 : db.uv > 1
    · c24_simp
    · by_cases h0 : db.uv = 0
      · c24_split db <;> c24_simp <;> (try (intro o; cases o <;> simp_all))
      · have : ¬ (1 : Int) ≤ db.uv := by omega
        c24_split db <;> c24_simp <;> (try (intro o; cases o <;> simp_all))

/-- FULL statement (DESIGN `open_safe`): `ok → complete ∧ uv = current ∧ rows kept; refuse → unchanged`.
It is FALSE of the code for exactly one family (see `open_ok_incomplete_witness`): a database already
stamped `user_version = 1` whose `idx_hash` is missing is opened as-is (`migrate` returns early and
`prepareStatements` does not need the index).  Proved: the full statement for every database that
is not already stamped current. -/
theorem open_safe_partial (db : Db ρ) (hne : db.uv ≠ latest facts) :
    ((openDb facts db).1 = .ok →
        complete (openDb facts db).2 ∧ (openDb facts db).2.uv = facts.schemaVersion ∧ rowsKept db (openDb facts db).2) ∧
    ((openDb facts db).1 = .refuse → (openDb facts db).2 = db) := by
  refine ⟨fun h => ⟨?_, (open_ok_preserves db h).1, (open_ok_preserves db h).2.2⟩, open_refuse_unchanged db⟩
  have h1 : ¬ db.uv = 1 := by rw [latest_facts] at hne; exact hne
  by_cases h2 : db.uv > 1
  · c24_simp
  · by_cases h0 : db.uv = 0
    · c24_split db <;> c24_simp
    · have : ¬ (1 : Int) ≤ db.uv := by omega
      c24_split db <;> c24_simp

/-- The same for every database, with the index caveat explicit. -/
theorem open_safe (db : Db ρ) :
    ((openDb facts db).1 = .ok →
        (openDb facts db).2.uv = facts.schemaVersion ∧ tablesPresent (openDb facts db).2 ∧
        rowsKept db (openDb facts db).2 ∧ (complete (openDb facts db).2 ∨ db.uv = latest facts)) ∧
    ((openDb facts db).1 = .refuse → (openDb facts db).2 = db) := by
  refine ⟨fun h => ?_, open_refuse_unchanged db⟩
  obtain ⟨a, b, c⟩ := open_ok_preserves db h
  refine ⟨a, b, c, ?_⟩
  by_cases hne : db.uv = latest facts
  · exact Or.inr hne
  · exact Or.inl ((open_safe_partial db hne).1 h).1

/-- The exception is real: stamped-current database, four tables, no index → opened, index still missing. -/
def staleIndexDb : Db Nat :=
  { uv := 1, tab := fun o => match o with | .idxHash => none | .simpleEntries => some [7, 8] | _ => some [] }

theorem open_ok_incomplete_witness :
    (openDb facts staleIndexDb).1 = .ok ∧ present (openDb facts staleIndexDb).2 .idxHash = false := by decide

/-! ### non-vacuity: each branch of the table is inhabited -/
def freshDb : Db Nat := { uv := 0, tab := fun _ => none }
def legacyDb : Db Nat := { uv := 0, tab := fun o => match o with | .simpleEntries => some [1, 2, 3] | _ => some [] }
def partialDb : Db Nat := { uv := 0, tab := fun o => match o with | .simpleEntries => some [1] | _ => none }
def stampedMissingTable : Db Nat := { uv := 1, tab := fun o => match o with | .leaseEntries => none | _ => some [5] }
def newerDb : Db Nat := { uv := 2, tab := fun _ => some [] }

example : (openDb facts freshDb).1 = .ok ∧ (openDb facts freshDb).2.uv = 1 ∧
    (Obj.all.all (present (openDb facts freshDb).2)) = true := by decide
example : (openDb facts legacyDb).1 = .ok ∧ (openDb facts legacyDb).2.uv = 1 ∧
    (openDb facts legacyDb).2.tab .simpleEntries = some [1, 2, 3] := by decide
example : (openDb facts partialDb).1 = .refuse := by decide
example : (openDb facts stampedMissingTable).1 = .refuse := by decide
example : (openDb facts newerDb).1 = .refuse := by decide
example : legacyDb.uv ≠ latest facts := by decide

end Specter.C24
