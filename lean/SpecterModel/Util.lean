/-
  Shared helpers for the line-protocol drivers (core Lean only, no Mathlib):
  the compiled `modeld` executable links these.
-/
namespace Specter.Util

/-- Outcome of comparing one implementation line with the model / spec. -/
inductive Verdict where
  | ok
  | diff (model : String)        -- model output differs from the implementation output
  | spec (why : String)          -- the property's executable predicate rejects the implementation output
  | bad (why : String)           -- the line could not be parsed (harness bug, never a violation by itself)

def Verdict.render : Verdict → String
  | .ok => "ok"
  | .diff m => "DIFF " ++ m
  | .spec w => "SPEC " ++ w
  | .bad w => "BAD " ++ w

/-- Split `lhs => rhs` into tokens of lhs and the raw rhs. -/
def splitArrow (line : String) : List String × String :=
  match line.splitOn " => " with
  | [l] => ((l.splitOn " ").filter (· ≠ ""), "")
  | l :: r => ((l.splitOn " ").filter (· ≠ ""), " => ".intercalate r)
  | [] => ([], "")

def stripNl (s : String) : String :=
  let s := if s.endsWith "\n" then (s.dropEnd 1).toString else s
  if s.endsWith "\r" then (s.dropEnd 1).toString else s

/-- Generic driver loop: one verdict line per input line. Lines starting with `#` are echoed as `ok`. -/
partial def runLoop {σ : Type} (init : σ) (step : σ → List String → String → σ × Verdict) : IO Unit := do
  let stdin ← IO.getStdin
  let stdout ← IO.getStdout
  let rec loop (s : σ) : IO Unit := do
    let line ← stdin.getLine
    if line.isEmpty then
      stdout.flush
      return ()
    let line := stripNl line
    if line.startsWith "#" || line.isEmpty then
      stdout.putStrLn "ok"
      loop s
    else
      let (toks, rhs) := splitArrow line
      let (s', v) := step s toks rhs
      stdout.putStrLn v.render
      loop s'
  loop init

def hexDigit (c : Char) : Option Nat :=
  if '0' ≤ c ∧ c ≤ '9' then some (c.toNat - '0'.toNat)
  else if 'a' ≤ c ∧ c ≤ 'f' then some (c.toNat - 'a'.toNat + 10)
  else if 'A' ≤ c ∧ c ≤ 'F' then some (c.toNat - 'A'.toNat + 10)
  else none

/-- Parse a hex string ("-" = empty) into bytes. -/
def hexToBytes (s : String) : Option (List Nat) :=
  if s = "-" then some [] else
  let rec go : List Char → List Nat → Option (List Nat)
    | [], acc => some acc.reverse
    | [_], _ => none
    | a :: b :: rest, acc =>
      match hexDigit a, hexDigit b with
      | some x, some y => go rest ((x * 16 + y) :: acc)
      | _, _ => none
  go s.toList []

def hexNibble (n : Nat) : Char :=
  if n < 10 then Char.ofNat ('0'.toNat + n) else Char.ofNat ('a'.toNat + n - 10)

def bytesToHex (bs : List Nat) : String :=
  if bs.isEmpty then "-" else
  String.ofList (bs.foldr (fun b acc => hexNibble (b / 16 % 16) :: hexNibble (b % 16) :: acc) [])

/-- Hex-encoded UTF-8 string token → String (bytes interpreted as Latin-1/ASCII chars; used for ASCII-only protocols). -/
def hexToAscii (s : String) : Option String :=
  (hexToBytes s).map fun bs => String.ofList (bs.map Char.ofNat)

def boolStr (b : Bool) : String := if b then "true" else "false"

def parseBool (s : String) : Option Bool :=
  if s = "true" then some true else if s = "false" then some false else none

end Specter.Util
