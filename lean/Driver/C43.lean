import SpecterModel.C43.Drv

def main : IO Unit := Specter.C43.main
