import SpecterModel.C25.Gen
/-!
# C25 — model of the client RPC gate of tun/server

`attachRPC` installs `verifyClientIdentity` as twirp `RequestRouted` hook on the TunnelService and the
KeylessService server; the hook runs after routing and BEFORE the request body is read and the handler is
called. The DHT is an abstract state `σ`; the only things the gate does with it are reading the record
under `ClientTokenKey token` and (old-format record, accepted caller only) rewriting that record.
The handlers are an arbitrary parameter `handler`; `Ping` and `RegisterIdentity` (the allow-list) are
modelled concretely. Core Lean only.
-/
namespace Specter.C25

/-- who is calling, as seen by `rpc.GetDelegation` / `extractAuthenticated`. -/
inductive Caller where
  | noDelegation                 -- no StreamDelegate in the context
  | noCert                       -- delegation without verified client certificate
  | badSubject                   -- certificate whose CommonName is not `v1:…:…` / `v2:…:…`
  | panicSubject                 -- `v1:<non-number>:…` : util.Must(ParseUint) panics
  | token (t : String)           -- verified certificate carrying token `t`
deriving DecidableEq, Repr

/-- what `getClientByToken` finds under the token key. -/
inductive TokenRec where
  | absent                       -- nothing stored / empty value: never registered
  | kvError                      -- Chord.Get failed
  | undecodable
  | client (oldFormat : Bool)    -- registered; oldFormat: no address or not rendezvous (pre-PKI record)
deriving DecidableEq, Repr

/-- the abstract DHT -/
structure World (σ : Type) where
  tokenRec : σ → String → TokenRec
  saveToken : σ → String → σ     -- saveClientToken

inductive Resp (ρ : Type) where
  | denied (code : String)       -- twirp error produced by the gate, handler not run
  | badRoute                     -- unknown method: twirp never routes, hook not run
  | handled (r : ρ)
deriving Repr

def allMethods : List String := Gen.C25.tunnelMethods ++ Gen.C25.keylessMethods

/-- the hook `verifyClientIdentity`: `none` = pass (with the possibly upgraded state), `some code` = refuse. -/
def gate {σ} (W : World σ) (allow : List String) (m : String) (c : Caller) (st : σ) : σ × Option String :=
  if c = .noDelegation then (st, some "internal")
  else if m ∈ allow then (st, none)
  else match c with
    | .noDelegation => (st, some "internal")
    | .noCert => (st, some "unauthenticated")
    | .badSubject => (st, some "unauthenticated")
    | .panicSubject => (st, some "panic")
    | .token t =>
      match W.tokenRec st t with
      | .client old => (if old then W.saveToken st t else st, none)
      | _ => (st, some "unauthenticated")

/-- one RPC through the twirp server. -/
def rpc {σ ρ} (W : World σ) (allow : List String) (handler : String → Caller → σ → σ × ρ)
    (m : String) (c : Caller) (st : σ) : σ × Resp ρ :=
  if m ∉ allMethods then (st, .badRoute)
  else match gate W allow m c st with
    | (st', some code) => (st', .denied code)
    | (st', none) => let (st'', r) := handler m c st'; (st'', .handled r)

/-! the two allow-listed handlers -/

inductive AllowResp where
  | pong | registered | err (code : String)
deriving DecidableEq, Repr

def ping {σ} (_c : Caller) (st : σ) : σ × AllowResp := (st, .pong)

/-- `RegisterIdentity`: extractAuthenticated, then a test datagram to the client, then saveClientToken. -/
def registerIdentity {σ} (W : World σ) (datagramOk saveOk : Bool) (c : Caller) (st : σ) : σ × AllowResp :=
  match c with
  | .noDelegation => (st, .err "internal")
  | .noCert | .badSubject => (st, .err "unauthenticated")
  | .panicSubject => (st, .err "internal")   -- handler panic: twirp's ensurePanicResponses answers `internal`
  | .token t =>
    if !datagramOk then (st, .err "aborted")
    else if !saveOk then (st, .err "kv")
    else (W.saveToken st t, .registered)

/-! ## identity extraction: `pki.ExtractCertificateIdentity` behind `extractAuthenticated`

The certificate's CommonName is `strings.SplitN(cn, ":", 3)`: cut at the FIRST and the SECOND separator
only, the third part is the whole remainder (it may contain further separators). Exactly three parts are
required. `v1:<id>:<token>` carries the remainder as token, `v2:<id>:<hash>` carries the ENTIRE CommonName
as token; `<id>` goes through `util.Must(strconv.ParseUint(id, 10, 64))` (panics when it is not a number).
Subjects are lists of characters here (the driver converts). -/

/-- cut at the first `:` — `none` when there is none. -/
def cut : List Char → Option (List Char × List Char)
  | [] => none
  | c :: cs =>
    if c = ':' then some ([], cs)
    else match cut cs with
      | some (a, b) => some (c :: a, b)
      | none => none

/-- `strings.SplitN(cn, ":", 3)` when it yields three parts. -/
def subjectParts (cn : List Char) : Option (List Char × List Char × List Char) :=
  match cut cn with
  | none => none
  | some (a, r) =>
    match cut r with
    | none => none
    | some (b, c) => some (a, b, c)

def isDigit (c : Char) : Bool := decide ('0' ≤ c) && decide (c ≤ '9')

def decVal (ds : List Char) : Nat := ds.foldl (fun n c => n * 10 + (c.toNat - '0'.toNat)) 0

/-- `strconv.ParseUint(s, 10, 64)` succeeds: non-empty, decimal digits only (no sign, no underscore), < 2^64. -/
def isUint64 (ds : List Char) : Bool := !ds.isEmpty && ds.all isDigit && decide (decVal ds < 2 ^ 64)

def v1Tag : List Char := ['v', '1']
def v2Tag : List Char := ['v', '2']

/-- the caller `extractAuthenticated` sees for a verified certificate with CommonName `cn`. -/
def callerOfSubject (cn : List Char) : Caller :=
  match subjectParts cn with
  | none => .badSubject
  | some (v, id, tok) =>
    if v = v1Tag then (if isUint64 id then .token (String.ofList tok) else .panicSubject)
    else if v = v2Tag then (if isUint64 id then .token (String.ofList cn) else .panicSubject)
    else .badSubject

/-- `pki.MakeSubjectV1` / `MakeSubjectV2` shapes. -/
def subjectV1 (id tok : List Char) : List Char := v1Tag ++ ':' :: (id ++ ':' :: tok)
def subjectV2 (id hash : List Char) : List Char := v2Tag ++ ':' :: (id ++ ':' :: hash)

/-- the caller the property lets through: verified certificate and a registered token. -/
def authorized {σ} (W : World σ) (st : σ) : Caller → Prop
  | .token t => ∃ old, W.tokenRec st t = .client old
  | _ => False

end Specter.C25
