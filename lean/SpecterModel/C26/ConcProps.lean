import SpecterModel.C26.Conc
import SpecterModel.C26.Props
/-!
# C26 under concurrency — the per-client lease makes (ownership check, route writes) atomic

Over ALL pools of concurrent publish / unpublish / release requests (any clients, hostnames, server lists, injected
KV failures) and ALL schedules at KV-call granularity (`crun`), starting from any DHT in which every route names an
owner:

* `lease_mutex`        — two requests of the same client are never both between their `Acquire` and their lease `Release`;
* `checked_owns`       — from its ownership check until its last route Put a publish request's hostname stays
                         registered to its client (no release of that client can run in the window);
* `conc_inv`           — at every moment every stored route sits in slot 1..3 of its own hostname and names a client
                         to whom that hostname is registered; in particular once all requests have returned
                         (`conc_quiescent`, `conc_pair`);
* `conc_ok_requires_owner` — a request that returns success found its hostname registered to its caller, and the
                         registration already existed when the requests started.
-/
namespace Specter.C26

def Pc.inside : Pc → Bool
  | .acquire => false
  | .done _ => false
  | _ => true

/-- a publish request after its ownership check, while it may still write routes. -/
def Pc.checked : Pc → Bool
  | .lookups _ _ _ => true
  | .puts _ _ => true
  | _ => false

def Out.isOk : Out → Bool
  | .ok _ => true
  | _ => false

/-- the request has passed its ownership check and has not failed since. -/
def Pc.passed : Pc → Bool
  | .lookups _ _ _ => true
  | .puts _ _ => true
  | .dels _ _ => true
  | .unregister => true
  | .uncustom => true
  | .unlock o => o.isOk
  | .done o => o.isOk
  | _ => false

/-- job indices stay below `numLinks` (the server list was validated when the request entered). -/
def WF (t : Thread) : Prop :=
  match t.pc with
  | .acquire => t.req.length ≤ numLinks
  | .contains => t.req.length ≤ numLinks
  | .lookups p got _ => (∀ x ∈ p, x.2 < numLinks) ∧ (∀ x ∈ got, x.1 < numLinks)
  | .puts p _ => ∀ x ∈ p, x.1 < numLinks
  | _ => True

/-- the slots an unpublish/release request has already deleted hold no route of its own client. -/
def Cleared (st : St) (t : Thread) : Prop :=
  match t.pc with
  | .dels p failed => failed = false → ∀ k ∈ slots, k ∉ p → ∀ r, st.route t.h k = some r → r.client.token ≠ t.c.token
  | .unregister => ∀ k r, st.route t.h k = some r → r.client.token ≠ t.c.token
  | _ => True

theorem mem_slots (k : Nat) : k ∈ slots ↔ 1 ≤ k ∧ k ≤ numLinks := by
  simp only [slots, List.mem_map, List.mem_range]
  constructor
  · rintro ⟨a, h1, h2⟩; omega
  · intro h; exact ⟨k - 1, by omega, by omega⟩

/-- what one KV call of one request does to the DHT and to the request, as far as the other requests can tell. -/
structure LStep (st : St) (t : Thread) (st' : St) (t' : Thread) : Prop where
  same : t'.c = t.c ∧ t'.h = t.h
  leaseOther : ∀ x, x ≠ t.c.token → st'.leased x = st.leased x
  leaseIn : t'.pc.inside = true → st'.leased t.c.token = true
  leaseEnter : t.pc.inside = false → t'.pc.inside = true → st.leased t.c.token = false
  leaseKeep : t.pc.inside = false → st.leased t.c.token = true → st'.leased t.c.token = true
  ownsMono : ∀ x y, st'.owns x y = true → st.owns x y = true
  ownsLost : ∀ x y, st.owns x y = true → st'.owns x y = false →
      x = t.c.token ∧ y = t.h ∧ t.pc.inside = true ∧ t.pc.checked = false
      ∧ ∀ k r, st.route y k = some r → r.client.token ≠ x
  routes : ∀ h k r, st'.route h k = some r → st.route h k = some r ∨
      (h = t.h ∧ 1 ≤ k ∧ k ≤ numLinks ∧ r.client = t.c ∧ r.hostname = t.h ∧ t.pc.checked = true)
  checked : t'.pc.checked = true → st'.owns t.c.token t.h = true
  wf : WF t'
  cleared : Cleared st' t'
  passed : t'.pc.passed = true → t.pc.passed = true ∨ st.owns t.c.token t.h = true

theorem lstep_refl (st : St) (t : Thread) (hwf : WF t) (hcl : Cleared st t)
    (hle : t.pc.inside = true → st.leased t.c.token = true)
    (hch : t.pc.checked = true → st.owns t.c.token t.h = true) : LStep st t st t where
  same := ⟨rfl, rfl⟩
  leaseOther := fun _ _ => rfl
  leaseIn := hle
  leaseEnter := fun h1 h2 => by rw [h1] at h2; cases h2
  leaseKeep := fun _ h => h
  ownsMono := fun _ _ h => h
  ownsLost := fun x y h1 h2 => by rw [h1] at h2; cases h2
  routes := fun _ _ _ h => Or.inl h
  checked := hch
  wf := hwf
  cleared := hcl
  passed := fun h => Or.inl h

theorem passed_done_unlock (o : Out) : Pc.passed (.done o) = Pc.passed (.unlock o) := rfl

/-- the pc reached when the last lookup job has returned. -/
theorem wf_afterLookups (kd : Kind) (f : Faults) (c : Client) (h : String) (n : Nat) (got : List (Nat × Dest)) (miss : Bool)
    (hg : ∀ x ∈ got, x.1 < numLinks) : WF ⟨kd, f, c, h, afterLookups n got miss⟩ := by
  unfold afterLookups enterPuts afterPuts
  cases miss
  · simp only [Bool.false_eq_true, if_false]
    by_cases hgot : got.isEmpty = true
    · simp only [hgot, if_true]; split <;> simp [WF]
    · simp only [hgot, if_false, Bool.false_eq_true]; simpa [WF] using hg
  · simp [WF]

theorem checked_afterLookups (n : Nat) (got : List (Nat × Dest)) (miss : Bool) :
    (afterLookups n got miss).inside = true ∧ ((afterLookups n got miss).passed = true → True) := by
  unfold afterLookups enterPuts afterPuts
  cases miss <;> simp only [Bool.false_eq_true, if_false, if_true] <;> (try split) <;> (try split) <;>
    simp [Pc.inside]

theorem inside_afterPuts (n : Nat) (res : List (Nat × String)) :
    (afterPuts n res).inside = true ∧ (afterPuts n res).checked = false := by
  unfold afterPuts; simp only; split <;> simp [Pc.inside, Pc.checked]

theorem inside_afterDels (k : Kind) (failed : Bool) :
    (afterDels k failed).inside = true ∧ (afterDels k failed).checked = false := by
  unfold afterDels; cases failed <;> cases k <;> simp [Pc.inside, Pc.checked]

theorem inside_enterDels (k : Kind) : (enterDels k).inside = true ∧ (enterDels k).checked = false := by
  unfold enterDels; split
  · exact inside_afterDels k false
  · simp [Pc.inside, Pc.checked]

theorem inside_enterLookups (req : List String) : (enterLookups req).inside = true := by
  unfold enterLookups; split
  · exact (checked_afterLookups 0 [] false).1
  · simp [Pc.inside]

theorem inside_afterContains (t : Thread) : (afterContains t).inside = true := by
  unfold afterContains
  cases t.kind with
  | publish s => exact inside_enterLookups _
  | unpublish => exact (inside_enterDels _).1
  | release => exact (inside_enterDels _).1

theorem lstep_read (st : St) (t t' : Thread) (hc : t'.c = t.c ∧ t'.h = t.h) (hin : t.pc.inside = true)
    (hl : st.leased t.c.token = true) (hwf : WF t') (hcl : Cleared st t')
    (hch : t'.pc.checked = true → st.owns t.c.token t.h = true)
    (hpa : t'.pc.passed = true → t.pc.passed = true ∨ st.owns t.c.token t.h = true) : LStep st t st t' where
  same := hc
  leaseOther := fun _ _ => rfl
  leaseIn := fun _ => hl
  leaseEnter := fun h1 _ => by rw [hin] at h1; cases h1
  leaseKeep := fun _ h => h
  ownsMono := fun _ _ h => h
  ownsLost := fun x y h1 h2 => by rw [h1] at h2; cases h2
  routes := fun _ _ _ h => Or.inl h
  checked := hch
  wf := hwf
  cleared := hcl
  passed := hpa

theorem cleared_afterLookups (st : St) (kd : Kind) (f : Faults) (c : Client) (h : String) (n : Nat)
    (got : List (Nat × Dest)) (miss : Bool) : Cleared st ⟨kd, f, c, h, afterLookups n got miss⟩ := by
  unfold afterLookups enterPuts afterPuts
  cases miss
  · simp only [Bool.false_eq_true, if_false]
    by_cases hgot : got.isEmpty = true
    · simp only [hgot, if_true]; split <;> simp [Cleared]
    · simp [hgot, Cleared]
  · simp [Cleared]

theorem cleared_afterPuts (st : St) (kd : Kind) (f : Faults) (c : Client) (h : String) (n : Nat)
    (res : List (Nat × String)) : Cleared st ⟨kd, f, c, h, afterPuts n res⟩ := by
  unfold afterPuts; simp only; split <;> simp [Cleared]

theorem wf_afterPuts (kd : Kind) (f : Faults) (c : Client) (h : String) (n : Nat) (res : List (Nat × String)) :
    WF ⟨kd, f, c, h, afterPuts n res⟩ := by
  unfold afterPuts; simp only; split <;> simp [WF]

theorem wf_afterDels (kd : Kind) (f : Faults) (c : Client) (h : String) (k : Kind) (failed : Bool) :
    WF ⟨kd, f, c, h, afterDels k failed⟩ := by
  unfold afterDels; cases failed <;> cases k <;> simp [WF]

theorem cleared_afterDels (st : St) (kd : Kind) (f : Faults) (c : Client) (h : String) (failed : Bool) (hinv : Inv st)
    (hP : failed = false → ∀ k ∈ slots, ∀ r, st.route h k = some r → r.client.token ≠ c.token) :
    Cleared st ⟨kd, f, c, h, afterDels kd failed⟩ := by
  unfold afterDels
  cases failed
  · simp only [Bool.false_eq_true, if_false]
    cases kd with
    | release =>
      simp only [Cleared]
      intro k r hr
      obtain ⟨_, h1, h2, _⟩ := hinv _ _ _ hr
      exact hP rfl k ((mem_slots k).2 ⟨h1, h2⟩) r hr
    | publish s => simp [Cleared]
    | unpublish => simp [Cleared]
  · simp [Cleared]

theorem cleared_nextDels (st : St) (kd : Kind) (f : Faults) (c : Client) (h : String) (rest : List Nat) (failed : Bool)
    (hinv : Inv st)
    (hP : failed = false → ∀ k ∈ slots, k ∉ rest → ∀ r, st.route h k = some r → r.client.token ≠ c.token) :
    Cleared st ⟨kd, f, c, h, if rest.isEmpty then afterDels kd failed else .dels rest failed⟩ := by
  by_cases hr : rest.isEmpty = true
  · simp only [hr, if_true]
    have : rest = [] := by simpa using hr
    subst this
    exact cleared_afterDels st kd f c h failed hinv (fun hf k hk r => hP hf k hk (by simp) r)
  · simp only [hr, if_false, Bool.false_eq_true]
    exact hP

theorem wf_afterContains (kd : Kind) (f : Faults) (c : Client) (h : String) (pc : Pc)
    (hl : (Thread.mk kd f c h pc).req.length ≤ numLinks) :
    WF ⟨kd, f, c, h, afterContains ⟨kd, f, c, h, pc⟩⟩ := by
  unfold afterContains
  cases kd with
  | publish s =>
    simp only
    unfold enterLookups
    by_cases he : (Thread.mk (.publish s) f c h pc).req.isEmpty = true
    · simp only [he, if_true]; exact wf_afterLookups _ _ _ _ 0 [] false (by simp)
    · simp only [he, if_false, Bool.false_eq_true, WF]
      refine ⟨fun x hx => ?_, by simp⟩
      have := List.snd_lt_of_mem_zipIdx hx
      omega
  | unpublish =>
    simp only; unfold enterDels; split
    · exact wf_afterDels _ _ _ _ _ false
    · simp [WF]
  | release =>
    simp only; unfold enterDels; split
    · exact wf_afterDels _ _ _ _ _ false
    · simp [WF]

theorem cleared_afterContains (st : St) (kd : Kind) (f : Faults) (c : Client) (h : String) (pc : Pc) (hinv : Inv st) :
    Cleared st ⟨kd, f, c, h, afterContains ⟨kd, f, c, h, pc⟩⟩ := by
  unfold afterContains
  cases kd with
  | publish s =>
    simp only
    unfold enterLookups
    by_cases he : (Thread.mk (.publish s) f c h pc).req.isEmpty = true
    · simp only [he, if_true]; exact cleared_afterLookups st _ _ _ _ 0 [] false
    · simp [he, Cleared]
  | unpublish =>
    simp only; unfold enterDels
    exact cleared_nextDels st .unpublish f c h slots false hinv (fun _ k hk hn => absurd hk hn)
  | release =>
    simp only; unfold enterDels
    exact cleared_nextDels st .release f c h slots false hinv (fun _ k hk hn => absurd hk hn)

theorem passed_afterContains_or (t : Thread) (b : Prop) (hb : b) :
    (afterContains t).passed = true → t.pc.passed = true ∨ b := fun _ => Or.inr hb

theorem tstep_lstep (st : St) (t : Thread) (j : Nat) (hinv : Inv st) (hwf : WF t) (hcl : Cleared st t)
    (hle : t.pc.inside = true → st.leased t.c.token = true)
    (hch : t.pc.checked = true → st.owns t.c.token t.h = true) :
    LStep st t (tstep st t j).1 (tstep st t j).2.1 := by
  have hrefl := lstep_refl st t hwf hcl hle hch
  rcases t with ⟨kind, f, c, h, pc⟩
  cases pc with
  | done o => simpa [tstep] using hrefl
  | acquire =>
    simp only [tstep]
    by_cases hj : j ≠ 0
    · simpa [hj] using hrefl
    · simp only [hj, if_false]
      by_cases hl : st.leased c.token = true
      · simp only [hl, if_true]
        constructor <;> simp_all [Pc.inside, Pc.checked, Pc.passed, WF, Cleared, Out.isOk, Thread.req]
      · simp only [hl, if_false, Bool.false_eq_true]
        constructor <;> simp_all [Pc.inside, Pc.checked, Pc.passed, WF, Cleared, Out.isOk, setLease, Thread.req]
  | contains =>
    simp only [tstep]
    by_cases hj : j ≠ 0
    · simpa [hj] using hrefl
    · simp only [hj, if_false]
      have hl : st.leased c.token = true := hle rfl
      by_cases ho : st.owns c.token h = true
      · simp only [ho, if_true]
        exact lstep_read st _ _ ⟨rfl, rfl⟩ rfl hl (wf_afterContains _ _ _ _ _ hwf) (cleared_afterContains st _ _ _ _ _ hinv)
          (fun _ => ho) (fun _ => Or.inr ho)
      · simp only [ho, if_false, Bool.false_eq_true]
        exact lstep_read st _ _ ⟨rfl, rfl⟩ rfl hl (by simp [WF]) (by simp [Cleared])
          (by simp [Pc.checked]) (by simp [Pc.passed, Out.isOk])
  | lookups pending got miss =>
    have hl : st.leased c.token = true := hle rfl
    have ho : st.owns c.token h = true := hch rfl
    simp only [tstep]
    cases hp : pending[j]? with
    | none => simpa [tstep, hp] using hrefl
    | some ai =>
      rcases ai with ⟨a, i⟩
      have hi : i < numLinks := hwf.1 _ (List.mem_of_getElem? hp)
      have hrest : ∀ x ∈ pending.eraseIdx j, x.2 < numLinks := fun x hx => hwf.1 x (List.mem_of_mem_eraseIdx hx)
      simp only
      cases hd : st.dest a with
      | some d =>
        simp only
        have hg : ∀ x ∈ got ++ [(i, d)], x.1 < numLinks := by
          intro x hx
          rcases List.mem_append.mp hx with h1 | h1
          · exact hwf.2 x h1
          · simp at h1; subst h1; exact hi
        by_cases he : (pending.eraseIdx j).isEmpty = true
        · simp only [he, if_true]
          exact lstep_read st _ _ ⟨rfl, rfl⟩ rfl hl (wf_afterLookups _ _ _ _ _ _ _ hg) (cleared_afterLookups st _ _ _ _ _ _ _)
            (fun _ => ho) (fun _ => Or.inl rfl)
        · simp only [he, if_false, Bool.false_eq_true]
          exact lstep_read st _ _ ⟨rfl, rfl⟩ rfl hl ⟨hrest, hg⟩ (by simp [Cleared]) (fun _ => ho) (fun _ => Or.inl rfl)
      | none =>
        simp only
        by_cases he : (pending.eraseIdx j).isEmpty = true
        · simp only [he, if_true]
          exact lstep_read st _ _ ⟨rfl, rfl⟩ rfl hl (wf_afterLookups _ _ _ _ _ _ _ hwf.2) (cleared_afterLookups st _ _ _ _ _ _ _)
            (fun _ => ho) (fun _ => Or.inl rfl)
        · simp only [he, if_false, Bool.false_eq_true]
          exact lstep_read st _ _ ⟨rfl, rfl⟩ rfl hl ⟨hrest, hwf.2⟩ (by simp [Cleared]) (fun _ => ho) (fun _ => Or.inl rfl)
  | puts pending res =>
    have hl : st.leased c.token = true := hle rfl
    have ho : st.owns c.token h = true := hch rfl
    simp only [tstep]
    cases hp : pending[j]? with
    | none => simpa [tstep, hp] using hrefl
    | some idd =>
      rcases idd with ⟨i, d⟩
      have hi : i < numLinks := hwf _ (List.mem_of_getElem? hp)
      have hrest : ∀ x ∈ pending.eraseIdx j, x.1 < numLinks := fun x hx => hwf x (List.mem_of_mem_eraseIdx hx)
      simp only
      by_cases hf : f.failRoute h (i + 1) = true
      · simp only [hf, if_true]
        by_cases he : (pending.eraseIdx j).isEmpty = true
        · simp only [he, if_true]
          exact lstep_read st _ _ ⟨rfl, rfl⟩ rfl hl (wf_afterPuts _ _ _ _ _ _) (cleared_afterPuts st _ _ _ _ _ _)
            (fun hc => by rw [(inside_afterPuts _ _).2] at hc; cases hc) (fun _ => Or.inl rfl)
        · simp only [he, if_false, Bool.false_eq_true]
          exact lstep_read st _ _ ⟨rfl, rfl⟩ rfl hl hrest (by simp [Cleared]) (fun _ => ho) (fun _ => Or.inl rfl)
      · simp only [hf, if_false, Bool.false_eq_true]
        have hroutes : ∀ h' k r, (setRoute st h (i + 1) (some ⟨c, d.chord, d.tunnel, h⟩)).route h' k = some r →
            st.route h' k = some r ∨ (h' = h ∧ 1 ≤ k ∧ k ≤ numLinks ∧ r.client = c ∧ r.hostname = h ∧ True) := by
          intro h' k r hr
          simp only [setRoute] at hr
          by_cases hh : h' = h ∧ k = i + 1
          · simp only [hh, and_self, if_true, Option.some.injEq] at hr
            right; subst hr; exact ⟨hh.1, by omega, by omega, rfl, rfl, trivial⟩
          · simp only [hh, if_false] at hr; exact Or.inl hr
        by_cases he : (pending.eraseIdx j).isEmpty = true
        · simp only [he, if_true]
          exact {
            same := ⟨rfl, rfl⟩, leaseOther := fun _ _ => rfl, leaseIn := fun _ => hl
            leaseEnter := fun h1 _ => by simp [Pc.inside] at h1
            leaseKeep := fun _ hx => hx
            ownsMono := fun _ _ hx => hx
            ownsLost := fun x y h1 h2 => by simp only [setRoute] at h2; rw [h1] at h2; cases h2
            routes := fun h' k r hr => by simpa [Pc.checked] using hroutes h' k r hr
            checked := fun _ => ho
            wf := wf_afterPuts _ _ _ _ _ _
            cleared := cleared_afterPuts _ _ _ _ _ _ _
            passed := fun _ => Or.inl rfl }
        · simp only [he, if_false, Bool.false_eq_true]
          exact {
            same := ⟨rfl, rfl⟩, leaseOther := fun _ _ => rfl, leaseIn := fun _ => hl
            leaseEnter := fun h1 _ => by simp [Pc.inside] at h1
            leaseKeep := fun _ hx => hx
            ownsMono := fun _ _ hx => hx
            ownsLost := fun x y h1 h2 => by simp only [setRoute] at h2; rw [h1] at h2; cases h2
            routes := fun h' k r hr => by simpa [Pc.checked] using hroutes h' k r hr
            checked := fun _ => ho
            wf := hrest
            cleared := by simp [Cleared]
            passed := fun _ => Or.inl rfl }
  | dels pending failed =>
    have hl : st.leased c.token = true := hle rfl
    simp only [tstep]
    cases hp : pending[j]? with
    | none => simpa [tstep, hp] using hrefl
    | some k0 =>
      simp only
      by_cases hf : f.failRoute h k0 = true
      · simp only [hf, if_true]
        by_cases he : (pending.eraseIdx j).isEmpty = true
        · simp only [he, if_true]
          exact lstep_read st _ _ ⟨rfl, rfl⟩ rfl hl (wf_afterDels _ _ _ _ _ _)
            (by have := cleared_nextDels st kind f c h (pending.eraseIdx j) true hinv (by simp)
                simpa [he] using this)
            (fun hc => by rw [(inside_afterDels _ _).2] at hc; cases hc) (fun _ => Or.inl rfl)
        · simp only [he, if_false, Bool.false_eq_true]
          exact lstep_read st _ _ ⟨rfl, rfl⟩ rfl hl (by simp [WF]) (by simp [Cleared]) (by simp [Pc.checked])
            (fun _ => Or.inl rfl)
      · simp only [hf, if_false, Bool.false_eq_true]
        have hroutes : ∀ h' k r, (setRoute st h k0 none).route h' k = some r → st.route h' k = some r := by
          intro h' k r hr
          simp only [setRoute] at hr
          by_cases hh : h' = h ∧ k = k0
          · simp [hh] at hr
          · simpa [hh] using hr
        have hP : failed = false → ∀ k ∈ slots, k ∉ pending.eraseIdx j → ∀ r,
            (setRoute st h k0 none).route h k = some r → r.client.token ≠ c.token := by
          intro hfl k hk hnr r hr
          by_cases hk0 : k = k0
          · subst hk0; simp [setRoute] at hr
          · have hnp : k ∉ pending := by
              intro hmem
              apply hnr
              obtain ⟨i', hi', hget⟩ := List.getElem_of_mem hmem
              refine List.mem_eraseIdx_iff_getElem.mpr ⟨i', hi', ?_, hget⟩
              intro hij; subst hij
              have : pending[i']? = some k := by simp [hi', hget]
              rw [hp] at this; injection this with this; exact hk0 this.symm
            exact hcl hfl k hk hnp r (hroutes h k r hr)
        have hinv' : Inv (setRoute st h k0 none) := by
          intro h' k r hr
          exact hinv h' k r (hroutes h' k r hr)
        have hcl' := cleared_nextDels (setRoute st h k0 none) kind f c h (pending.eraseIdx j) failed hinv' hP
        exact {
          same := ⟨by split <;> rfl, by split <;> rfl⟩, leaseOther := fun _ _ => rfl, leaseIn := fun _ => hl
          leaseEnter := fun h1 _ => by simp [Pc.inside] at h1
          leaseKeep := fun _ hx => hx
          ownsMono := fun _ _ hx => hx
          ownsLost := fun x y h1 h2 => by simp only [setRoute] at h2; rw [h1] at h2; cases h2
          routes := fun h' k r hr => Or.inl (hroutes h' k r hr)
          checked := fun hc => by
            exfalso; revert hc
            split
            · rw [(inside_afterDels _ _).2]; simp
            · simp [Pc.checked]
          wf := by split <;> first | exact wf_afterDels _ _ _ _ _ _ | simp [WF]
          cleared := hcl'
          passed := fun _ => Or.inl rfl }
  | unregister =>
    have hl : st.leased c.token = true := hle rfl
    simp only [tstep]
    by_cases hj : j ≠ 0
    · simpa [hj] using hrefl
    · simp only [hj, if_false]
      exact {
        same := ⟨rfl, rfl⟩, leaseOther := fun _ _ => rfl, leaseIn := fun _ => hl
        leaseEnter := fun h1 _ => by simp [Pc.inside] at h1
        leaseKeep := fun _ hx => hx
        ownsMono := fun x y hx => by
          simp only at hx
          by_cases hxy : x = c.token ∧ y = h
          · simp [hxy] at hx
          · simpa [hxy] using hx
        ownsLost := fun x y h1 h2 => by
          simp only at h2
          by_cases hxy : x = c.token ∧ y = h
          · obtain ⟨hx, hy⟩ := hxy
            subst hx; subst hy
            exact ⟨rfl, rfl, rfl, rfl, fun k r hr => hcl k r hr⟩
          · simp only [hxy, if_false] at h2; rw [h1] at h2; cases h2
        routes := fun _ _ _ hr => Or.inl hr
        checked := fun hc => by simp [Pc.checked] at hc
        wf := by simp [WF]
        cleared := by simp [Cleared]
        passed := fun _ => Or.inl rfl }
  | uncustom =>
    have hl : st.leased c.token = true := hle rfl
    simp only [tstep]
    by_cases hj : j ≠ 0
    · simpa [hj] using hrefl
    · simp only [hj, if_false]
      by_cases hf : f.failCustomDel h = true
      · simp only [hf, if_true]
        exact lstep_read st _ _ ⟨rfl, rfl⟩ rfl hl (by simp [WF]) (by simp [Cleared]) (by simp [Pc.checked])
          (fun _ => Or.inl rfl)
      · simp only [hf, if_false, Bool.false_eq_true]
        exact {
          same := ⟨rfl, rfl⟩, leaseOther := fun _ _ => rfl, leaseIn := fun _ => hl
          leaseEnter := fun h1 _ => by simp [Pc.inside] at h1
          leaseKeep := fun _ hx => hx
          ownsMono := fun _ _ hx => hx
          ownsLost := fun x y h1 h2 => by simp only at h2; rw [h1] at h2; cases h2
          routes := fun _ _ _ hr => Or.inl hr
          checked := fun hc => by simp [Pc.checked] at hc
          wf := by simp [WF]
          cleared := by simp [Cleared]
          passed := fun _ => Or.inl rfl }
  | unlock out =>
    simp only [tstep]
    by_cases hj : j ≠ 0
    · simpa [hj] using hrefl
    · simp only [hj, if_false]
      exact {
        same := ⟨rfl, rfl⟩
        leaseOther := fun x hx => by simp [setLease, hx]
        leaseIn := fun hc => by simp [Pc.inside] at hc
        leaseEnter := fun h1 _ => by simp [Pc.inside] at h1
        leaseKeep := fun h1 _ => by simp [Pc.inside] at h1
        ownsMono := fun _ _ hx => hx
        ownsLost := fun x y h1 h2 => by simp only [setLease] at h2; rw [h1] at h2; cases h2
        routes := fun _ _ _ hr => Or.inl hr
        checked := fun hc => by simp [Pc.checked] at hc
        wf := by simp [WF]
        cleared := by simp [Cleared]
        passed := fun hp => Or.inl hp }

/-! ## the invariant of the whole configuration -/

theorem inside_of_checked (pc : Pc) (h : pc.checked = true) : pc.inside = true := by
  cases pc <;> simp_all [Pc.checked, Pc.inside]

/-- `st0` = the DHT when the requests entered. -/
structure CInv (st0 : St) (cfg : Cfg) : Prop where
  inv : Inv cfg.st
  mutex : ∀ a b, (cfg.ts a).pc.inside = true → (cfg.ts b).pc.inside = true →
      (cfg.ts a).c.token = (cfg.ts b).c.token → a = b
  leased : ∀ a, (cfg.ts a).pc.inside = true → cfg.st.leased (cfg.ts a).c.token = true
  checked : ∀ a, (cfg.ts a).pc.checked = true → cfg.st.owns (cfg.ts a).c.token (cfg.ts a).h = true
  wf : ∀ a, WF (cfg.ts a)
  cleared : ∀ a, Cleared cfg.st (cfg.ts a)
  mono : ∀ x y, cfg.st.owns x y = true → st0.owns x y = true
  passed : ∀ a, (cfg.ts a).pc.passed = true → st0.owns (cfg.ts a).c.token (cfg.ts a).h = true

theorem cinv_step (st0 : St) (cfg : Cfg) (i j : Nat) (H : CInv st0 cfg) : CInv st0 (cstep cfg i j) := by
  have L := tstep_lstep cfg.st (cfg.ts i) j H.inv (H.wf i) (H.cleared i) (H.leased i) (H.checked i)
  generalize hst' : (tstep cfg.st (cfg.ts i) j).1 = st' at L
  generalize ht' : (tstep cfg.st (cfg.ts i) j).2.1 = t' at L
  have hcfg : cstep cfg i j = ⟨st', fun k => if k = i then t' else cfg.ts k⟩ := by
    simp only [cstep, hst', ht']
  rw [hcfg]
  obtain ⟨hc, hh⟩ := L.same
  -- a registration that is kept
  have keep : ∀ x y, cfg.st.owns x y = true →
      (x = (cfg.ts i).c.token → y = (cfg.ts i).h → (cfg.ts i).pc.inside = true → False) → st'.owns x y = true := by
    intro x y ho hno
    cases hs : st'.owns x y with
    | true => rfl
    | false =>
      obtain ⟨h1, h2, h3, _⟩ := L.ownsLost x y ho hs
      exact (hno h1 h2 h3).elim
  refine ⟨?_, ?_, ?_, ?_, ?_, ?_, ?_, ?_⟩
  · -- every route names an owner
    intro h k r hr
    simp only at hr ⊢
    rcases L.routes h k r hr with hold | ⟨e1, e2, e3, e4, e5, e6⟩
    · obtain ⟨a1, a2, a3, a4⟩ := H.inv h k r hold
      refine ⟨a1, a2, a3, ?_⟩
      cases hs : st'.owns r.client.token h with
      | true => rfl
      | false =>
        obtain ⟨_, _, _, _, hno⟩ := L.ownsLost _ _ a4 hs
        exact (hno k r hold rfl).elim
    · refine ⟨by rw [e5, e1], e2, e3, ?_⟩
      rw [e4, e1]
      have ho := H.checked i e6
      cases hs : st'.owns (cfg.ts i).c.token (cfg.ts i).h with
      | true => rfl
      | false =>
        obtain ⟨_, _, _, hnc, _⟩ := L.ownsLost _ _ ho hs
        rw [e6] at hnc; cases hnc
  · -- mutual exclusion
    intro a b ha hb hab
    simp only at ha hb hab
    by_cases hai : a = i <;> by_cases hbi : b = i
    · rw [hai, hbi]
    · simp only [hai, if_true, hbi, if_false] at ha hb hab
      rw [hc] at hab
      by_cases hin : (cfg.ts i).pc.inside = true
      · rw [hai]; exact H.mutex i b hin hb hab
      · have hfree := L.leaseEnter (by simpa using hin) ha
        have := H.leased b hb
        rw [← hab, hfree] at this; cases this
    · simp only [hai, if_false, hbi, if_true] at ha hb hab
      rw [hc] at hab
      by_cases hin : (cfg.ts i).pc.inside = true
      · rw [hbi]; exact H.mutex a i ha hin hab
      · have hfree := L.leaseEnter (by simpa using hin) hb
        have := H.leased a ha
        rw [hab, hfree] at this; cases this
    · simp only [hai, hbi, if_false] at ha hb hab
      exact H.mutex a b ha hb hab
  · -- a request inside holds its lease
    intro a ha
    simp only at ha ⊢
    by_cases hai : a = i
    · simp only [hai, if_true] at ha ⊢
      rw [hc]; exact L.leaseIn ha
    · simp only [hai, if_false] at ha ⊢
      have hl := H.leased a ha
      by_cases htok : (cfg.ts a).c.token = (cfg.ts i).c.token
      · by_cases hin : (cfg.ts i).pc.inside = true
        · exact (hai (H.mutex a i ha hin htok)).elim
        · rw [htok] at hl ⊢
          exact L.leaseKeep (by simpa using hin) hl
      · rw [L.leaseOther _ htok]; exact hl
  · -- a checked publish still owns its hostname
    intro a ha
    simp only at ha ⊢
    by_cases hai : a = i
    · simp only [hai, if_true] at ha ⊢
      rw [hc, hh]; exact L.checked ha
    · simp only [hai, if_false] at ha ⊢
      refine keep _ _ (H.checked a ha) (fun h1 _ h3 => ?_)
      exact hai (H.mutex a i (inside_of_checked _ ha) h3 h1)
  · intro a
    simp only
    by_cases hai : a = i
    · simp only [hai, if_true]; exact L.wf
    · simp only [hai, if_false]; exact H.wf a
  · -- deleted slots stay free of the deleting client's routes
    intro a
    simp only
    by_cases hai : a = i
    · simp only [hai, if_true]; exact L.cleared
    · simp only [hai, if_false]
      have hca := H.cleared a
      have other : (cfg.ts a).pc.inside = true → ∀ k r, st'.route (cfg.ts a).h k = some r →
          (cfg.st.route (cfg.ts a).h k = some r → r.client.token ≠ (cfg.ts a).c.token) →
          r.client.token ≠ (cfg.ts a).c.token := by
        intro hin k r hr hold
        rcases L.routes _ k r hr with h1 | ⟨_, _, _, e4, _, e6⟩
        · exact hold h1
        · intro heq
          rw [e4] at heq
          exact hai (H.mutex a i hin (inside_of_checked _ e6) heq.symm)
      revert hca other
      generalize cfg.ts a = ta
      rcases ta with ⟨kd, f, c, h, pc⟩
      cases pc <;> simp only [Cleared] <;> intro hca other <;> try trivial
      · intro hf k hk hnp r hr
        exact other rfl k r hr (fun h1 => hca hf k hk hnp r h1)
      · intro k r hr
        exact other rfl k r hr (fun h1 => hca k r h1)
  · intro x y hxy
    exact H.mono x y (L.ownsMono x y hxy)
  · intro a ha
    simp only at ha ⊢
    by_cases hai : a = i
    · simp only [hai, if_true] at ha ⊢
      rw [hc, hh]
      rcases L.passed ha with h1 | h1
      · exact H.passed i h1
      · exact H.mono _ _ h1
    · simp only [hai, if_false] at ha ⊢
      exact H.passed a ha

theorem cinv_run (st0 : St) (cfg : Cfg) (sched : List (Nat × Nat)) (H : CInv st0 cfg) : CInv st0 (crun cfg sched) := by
  induction sched generalizing cfg with
  | nil => exact H
  | cons s r ih => exact ih _ (cinv_step st0 cfg s.1 s.2 H)

theorem wf_of_acquire (t : Thread) (h : t.pc = .acquire) (h2 : t.req.length ≤ numLinks) : WF t := by
  rcases t with ⟨kd, f, c, h', pc⟩
  simp only at h; subst h; simpa [WF] using h2

theorem wf_of_done (t : Thread) (o : Out) (h : t.pc = .done o) : WF t := by
  rcases t with ⟨kd, f, c, h', pc⟩
  simp only at h; subst h; simp [WF]

theorem cleared_of_acquire (st : St) (t : Thread) (h : t.pc = .acquire) : Cleared st t := by
  rcases t with ⟨kd, f, c, h', pc⟩
  simp only at h; subst h; simp [Cleared]

theorem cleared_of_done (st : St) (t : Thread) (o : Out) (h : t.pc = .done o) : Cleared st t := by
  rcases t with ⟨kd, f, c, h', pc⟩
  simp only at h; subst h; simp [Cleared]

/-- every request of the pool has just entered its handler. -/
def Fresh (ts : Nat → Thread) : Prop := ∀ a, ∃ kind f c h, ts a = spawn kind f c h

theorem cinv_init (st : St) (ts : Nat → Thread) (hinv : Inv st) (hf : Fresh ts) : CInv st ⟨st, ts⟩ := by
  have hpc : ∀ a, (ts a).pc = .acquire ∧ (ts a).req.length ≤ numLinks ∨ (ts a).pc = .done .invalidArgument := by
    intro a
    obtain ⟨kind, f, c, h, e⟩ := hf a
    rw [e]
    cases kind with
    | publish s =>
      simp only [spawn, Thread.req]
      by_cases h1 : (uniq s).length > numLinks
      · simp [h1]
      · by_cases h2 : (uniq s).length < 1
        · simp [h1, h2]
        · simp only [h1, h2, if_false]; left; exact ⟨trivial, by omega⟩
    | unpublish => simp [spawn, Thread.req]
    | release => simp [spawn, Thread.req]
  refine ⟨hinv, ?_, ?_, ?_, ?_, ?_, fun _ _ h => h, ?_⟩
  · intro a b ha; rcases hpc a with h | h <;> simp [h, Pc.inside] at ha
  · intro a ha; rcases hpc a with h | h <;> simp [h, Pc.inside] at ha
  · intro a ha; rcases hpc a with h | h <;> simp [h, Pc.checked] at ha
  · intro a
    rcases hpc a with h | h
    · exact wf_of_acquire _ h.1 h.2
    · exact wf_of_done _ _ h
  · intro a
    rcases hpc a with h | h
    · exact cleared_of_acquire _ _ h.1
    · exact cleared_of_done _ _ _ h
  · intro a ha; rcases hpc a with h | h <;> simp [h, Pc.passed, Out.isOk] at ha

/-! ## the property over all concurrent histories -/

/-- C26 under concurrency: whatever publish / unpublish / release requests (of any clients, on any hostnames) run
concurrently and however their KV calls interleave, at every moment every stored route sits in slot 1..3 of its own
hostname and names a client to whom that hostname is registered. -/
theorem conc_inv (st : St) (ts : Nat → Thread) (hinv : Inv st) (hf : Fresh ts) (sched : List (Nat × Nat)) :
    Inv (crun ⟨st, ts⟩ sched).st :=
  (cinv_run st _ sched (cinv_init st ts hinv hf)).inv

/-- the per-client lease is a mutex: two requests of one client are never both between Acquire and Release. -/
theorem lease_mutex (st : St) (ts : Nat → Thread) (hinv : Inv st) (hf : Fresh ts) (sched : List (Nat × Nat)) (a b : Nat)
    (ha : ((crun ⟨st, ts⟩ sched).ts a).pc.inside = true) (hb : ((crun ⟨st, ts⟩ sched).ts b).pc.inside = true)
    (hab : ((crun ⟨st, ts⟩ sched).ts a).c.token = ((crun ⟨st, ts⟩ sched).ts b).c.token) : a = b :=
  (cinv_run st _ sched (cinv_init st ts hinv hf)).mutex a b ha hb hab

/-- (ownership check, route writes) is atomic w.r.t. release: from the moment a publish request has passed its
ownership check until its last route Put, the hostname is still registered to its client — no ReleaseTunnel of
that client can remove the registration inside the window. -/
theorem checked_owns (st : St) (ts : Nat → Thread) (hinv : Inv st) (hf : Fresh ts) (sched : List (Nat × Nat)) (a : Nat)
    (ha : ((crun ⟨st, ts⟩ sched).ts a).pc.checked = true) :
    (crun ⟨st, ts⟩ sched).st.owns ((crun ⟨st, ts⟩ sched).ts a).c.token ((crun ⟨st, ts⟩ sched).ts a).h = true :=
  (cinv_run st _ sched (cinv_init st ts hinv hf)).checked a ha

/-- once every request has returned, a route exists only for a hostname registered to the client it names. -/
theorem conc_quiescent (st : St) (ts : Nat → Thread) (hinv : Inv st) (hf : Fresh ts) (sched : List (Nat × Nat))
    (_hdone : ∀ a, ∃ o, ((crun ⟨st, ts⟩ sched).ts a).pc = .done o) (h : String) (k : Nat) (r : Route)
    (hr : (crun ⟨st, ts⟩ sched).st.route h k = some r) :
    (crun ⟨st, ts⟩ sched).st.owns r.client.token h = true ∧ r.hostname = h ∧ 1 ≤ k ∧ k ≤ numLinks := by
  obtain ⟨a, b, c, d⟩ := conc_inv st ts hinv hf sched h k r hr
  exact ⟨d, a, b, c⟩

/-- a request that returns success found its hostname registered to its caller — and it was registered to the
caller before the requests started (nothing registers hostnames inside the pool). -/
theorem conc_ok_requires_owner (st : St) (ts : Nat → Thread) (hinv : Inv st) (hf : Fresh ts) (sched : List (Nat × Nat))
    (a : Nat) (p : List String) (hok : ((crun ⟨st, ts⟩ sched).ts a).pc = .done (.ok p)) :
    st.owns ((crun ⟨st, ts⟩ sched).ts a).c.token ((crun ⟨st, ts⟩ sched).ts a).h = true :=
  (cinv_run st _ sched (cinv_init st ts hinv hf)).passed a (by rw [hok]; rfl)

/-- the pool of exactly two concurrent requests (every other slot holds a request that returned before any KV call). -/
def pair (a b : Thread) : Nat → Thread := fun i => if i = 0 then a else if i = 1 then b else spawn (.publish []) {} a.c a.h

theorem fresh_pair (kA kB : Kind) (fA fB : Faults) (cA cB : Client) (hA hB : String) :
    Fresh (pair (spawn kA fA cA hA) (spawn kB fB cB hB)) := by
  intro i
  unfold pair
  by_cases h0 : i = 0
  · exact ⟨kA, fA, cA, hA, by simp [h0]⟩
  · by_cases h1 : i = 1
    · exact ⟨kB, fB, cB, hB, by simp [h1]⟩
    · exact ⟨.publish [], {}, (spawn kA fA cA hA).c, (spawn kA fA cA hA).h, by simp [h0, h1]⟩

/-- two overlapping requests (e.g. PublishTunnel(h) and ReleaseTunnel(h) of one client on two streams), any
interleaving of their KV calls: when both have returned — whatever they returned — a route exists only for a
hostname that is registered to the client the route names. -/
theorem conc_pair (st : St) (hinv : Inv st) (kA kB : Kind) (fA fB : Faults) (cA cB : Client) (hA hB : String)
    (sched : List (Nat × Nat)) (h : String) (k : Nat) (r : Route)
    (hr : (crun ⟨st, pair (spawn kA fA cA hA) (spawn kB fB cB hB)⟩ sched).st.route h k = some r) :
    (crun ⟨st, pair (spawn kA fA cA hA) (spawn kB fB cB hB)⟩ sched).st.owns r.client.token h = true := by
  exact (conc_inv st _ hinv (fresh_pair kA kB fA fB cA cB hA hB) sched h k r hr).2.2.2

/-! ## non-vacuity: the window between the ownership check and the route writes -/

private def cd0 : String → Option Dest
  | "s1" => some ⟨"c1", "s1"⟩ | "s2" => some ⟨"c2", "s2"⟩ | _ => none
private def calice : Client := ⟨"alice", 1⟩
private def cstA : St := (generate calice "h" (init cd0)).1
private def pubRel : Cfg := ⟨cstA, pair (spawn (.publish [some "s1", some "s2"]) {} calice "h") (spawn .release {} calice "h")⟩

/-- release arrives between publish's ownership check and its route writes (during the destination lookups):
its Acquire meets the lease held by publish and it is refused; publish completes; the hostname stays registered. -/
private def windowSched : List (Nat × Nat) :=
  [(0, 0), (0, 0), (0, 1), (1, 0), (0, 0), (0, 1), (0, 0), (0, 0)]

example : ((crun pubRel windowSched).ts 0).pc.out? = some (.ok ["s1", "s2"]) := by decide
example : ((crun pubRel windowSched).ts 1).pc.out? = some .internal := by decide
example : (crun pubRel windowSched).st.route "h" 2 = some ⟨calice, "c2", "s2", "h"⟩ := by decide
example : (crun pubRel windowSched).st.owns "alice" "h" = true := by decide
example : (crun pubRel windowSched).st.leased "alice" = false := by decide
example : ((crun pubRel [(0, 0), (0, 0), (0, 1)]).ts 0).pc.checked = true := by decide

/-- release runs first (8 KV calls), then publish: refused, no route. -/
private def relFirst : List (Nat × Nat) :=
  [(1, 0), (1, 0), (1, 2), (1, 0), (1, 0), (1, 0), (1, 0), (1, 0), (0, 0), (0, 0), (0, 0)]

example : ((crun pubRel relFirst).ts 1).pc.out? = some (.ok []) := by decide
example : ((crun pubRel relFirst).ts 0).pc.out? = some .permissionDenied := by decide
example : (crun pubRel relFirst).st.route "h" 1 = none := by decide
example : (crun pubRel relFirst).st.owns "alice" "h" = false := by decide

/-- publish first, then release: both succeed, routes and registration are gone. -/
private def pubFirst : List (Nat × Nat) :=
  [(0, 0), (0, 0), (0, 0), (0, 0), (0, 1), (0, 0), (0, 0),
   (1, 0), (1, 0), (1, 0), (1, 0), (1, 0), (1, 0), (1, 0), (1, 0)]

example : ((crun pubRel pubFirst).ts 0).pc.out? = some (.ok ["s1", "s2"]) := by decide
example : ((crun pubRel pubFirst).ts 1).pc.out? = some (.ok []) := by decide
example : (crun pubRel pubFirst).st.route "h" 1 = none ∧ (crun pubRel pubFirst).st.route "h" 2 = none := by decide
example : Fresh pubRel.ts := fresh_pair _ _ _ _ _ _ _ _
example : Inv pubRel.st := inv_step _ (.generate calice "h") (inv_init cd0)

end Specter.C26
