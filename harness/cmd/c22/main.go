// C22 tie: real log files produced by the real aof store on random histories; EVERY truncation offset
// of the segment file and torn variants (zero / 0xFF / random fill from every byte position) of the last
// entry of several log prefixes are reopened with the real aof.New. Outcome must be an error or the state
// of a prefix of the history (oracle in the Lean driver), and must match the byte-level Lean model.
package main

import (
	"encoding/binary"
	"encoding/hex"
	"os"
	"path/filepath"
	"strconv"
	"strings"

	"go.miragespace.co/specter/kv/aof"
	"verif/harness/cmd/c21/aofh"
	"verif/harness/hlib"
)

const segName = "00000000000000000001"

type caseRun struct {
	r    *hlib.Run
	rng  *hlib.Rng
	ops  []aofh.Op
	keys [][]byte
	work string
	seg  []byte
}

func (c *caseRun) recoverImage(img []byte) string {
	dir := filepath.Join(c.work, "img")
	os.RemoveAll(dir)
	os.MkdirAll(filepath.Join(dir, aof.LogDir), 0o755)
	if err := os.WriteFile(filepath.Join(dir, aof.LogDir, segName), img, 0o644); err != nil {
		panic(err)
	}
	res := aofh.Recover(dir, c.keys)
	if res == "error" || res == "panic" {
		c.r.Count("outcome:" + res)
	} else {
		c.r.Count("outcome:state")
	}
	return res
}

// frame boundaries of the real file (uvarint length + payload), parsed independently of the store
func frames(seg []byte) (starts []int) {
	for pos := 0; pos < len(seg); {
		size, n := binary.Uvarint(seg[pos:])
		if n <= 0 || pos+n+int(size) > len(seg) {
			panic("clean log does not parse")
		}
		starts = append(starts, pos)
		pos += n + int(size)
	}
	return append(starts, len(seg))
}

func (c *caseRun) run(allOffsets bool, tornEntries int) {
	c.work = aofh.TempDir("c22-")
	defer os.RemoveAll(c.work)
	c.keys = aofh.Universe(c.ops)
	dir := filepath.Join(c.work, "clean")
	kv, err := aofh.Open(dir)
	if err != nil {
		panic(err)
	}
	c.r.Raw("reset")
	for _, o := range c.ops {
		res := aofh.Exec(kv, o)
		c.r.Emit(o.Line(), res)
		c.r.Count("op:" + o.Kind)
	}
	ks := aofh.ListTok(c.keys)
	c.r.Emit("snap "+ks, aofh.Snapshot(kv, c.keys))
	kv.Stop()
	es, _ := os.ReadDir(filepath.Join(dir, aof.LogDir))
	if len(es) != 1 || es[0].Name() != segName {
		panic("expected a single segment file")
	}
	c.seg, _ = os.ReadFile(filepath.Join(dir, aof.LogDir, segName))
	st := frames(c.seg)
	c.r.Emit("seg "+hlib.Hex(c.seg), strconv.Itoa(len(st)-1))
	c.r.Count(hlib.F("log-entries:%d", (len(st)-1+4)/5*5))

	// every truncation offset
	for t := 0; t <= len(c.seg); t++ {
		if !allOffsets && t%7 != 0 && t != len(c.seg) {
			continue
		}
		c.r.Emit("trunc "+ks+" "+strconv.Itoa(t), c.recoverImage(c.seg[:t]))
		c.r.Count("image:truncation")
	}
	// torn write of the last entry of the full log and of some earlier log prefixes
	n := len(st) - 1
	if n == 0 {
		return
	}
	which := []int{n - 1}
	for i := 1; i < tornEntries; i++ {
		which = append(which, c.rng.Intn(n))
	}
	for _, k := range which {
		start, end := st[k], st[k+1]
		L := end - start
		for j := 0; j < L; j++ {
			for _, kind := range []string{"zero", "ff", "rand", "flip"} {
				fill := make([]byte, L-j)
				switch kind {
				case "ff":
					for i := range fill {
						fill[i] = 0xff
					}
				case "rand":
					copy(fill, c.rng.Bytes(L-j))
				case "flip": // the rest of the frame is there, one bit of byte j is flipped
					copy(fill, c.seg[start+j:end])
					fill[0] ^= 1 << uint(c.rng.Intn(8))
				}
				img := append(append([]byte(nil), c.seg[:start+j]...), fill...)
				c.r.Emit("torn "+ks+" "+strconv.Itoa(start)+" "+strconv.Itoa(j)+" "+hex.EncodeToString(fill)+" "+kind,
					c.recoverImage(img))
				c.r.Count("image:torn-" + kind)
			}
		}
	}
	// torn write of ONE entry that is not the last: the entries after it reached the disk (pages written out
	// of order before the power loss), bytes [j, end) of this one did not
	if n >= 2 {
		mids := []int{c.rng.Intn(n - 1), c.rng.Intn(n - 1)}
		for _, k := range mids {
			start, end := st[k], st[k+1]
			L := end - start
			js := []int{0, c.rng.Intn(L), c.rng.Intn(L)}
			for _, j := range js {
				for _, kind := range []string{"zero", "ff", "rand", "flip"} {
					fill := make([]byte, L-j)
					switch kind {
					case "ff":
						for i := range fill {
							fill[i] = 0xff
						}
					case "rand":
						copy(fill, c.rng.Bytes(L-j))
					case "flip":
						copy(fill, c.seg[start+j:end])
						fill[0] ^= 1 << uint(c.rng.Intn(8))
					}
					img := append(append(append([]byte(nil), c.seg[:start+j]...), fill...), c.seg[end:]...)
					c.r.Emit("tornmid "+ks+" "+strconv.Itoa(start)+" "+strconv.Itoa(j)+" "+hex.EncodeToString(fill)+" "+kind,
						c.recoverImage(img))
					c.r.Count("image:tornmid-" + kind)
				}
			}
		}
	}
	var key strings.Builder
	for _, o := range c.ops {
		key.WriteString(o.Line() + ";")
	}
	c.r.Case(key.String())
}

func main() {
	r := hlib.Start()
	r.Rule = "log files written by the real aof store for random mutation histories; every truncation offset of the file; torn writes of the last entry (of the full log and of random log prefixes): bytes [j, end) of the frame replaced by zeros / 0xFF / random bytes / a single bit flip, for every j; the same four fills on an entry that is NOT the last with the later entries intact (whole entry and random j); each image reopened with the real aof.New; non-trivial = distinct history with a non-empty log"
	rng := hlib.NewRng(r.Seed)
	if r.Replay != "" {
		var ops []aofh.Op
		for _, t := range r.ReplayLines() {
			if o, ok := aofh.ParseOp(t); ok {
				ops = append(ops, o)
			}
		}
		c := &caseRun{r: r, rng: rng, ops: ops}
		c.run(true, 3)
		r.Finish()
		return
	}
	cases, maxOps, torn := 6, 24, 2
	if r.Thorough() {
		cases, maxOps, torn = 150, 60, 4
	}
	for i := 0; i < cases; i++ {
		n := 1 + rng.Intn(maxOps)
		if i == 0 {
			n = 0
		}
		ops := aofh.Gen(rng, aofh.GenCfg{N: n, EmptyKey: rng.Chance(40)})
		c := &caseRun{r: r, rng: rng, ops: ops}
		c.run(true, torn)
		if n == 0 {
			r.Case("")
		}
	}
	r.Finish()
}
