import SpecterModel.Util
import SpecterModel.C34.Model
/-! C34 line-protocol driver.

`ext  <roots> <hostHex> <isIP> => <res>`                          one call of the real extractHostname
`pair <roots> <h1> <ip1> <h2> <ip2> => <res1> <res2>`             two hosts (case variants) on the same gateway

`<roots>` = `_` (no roots) or comma-joined hex tokens; `<res>` = `ok:<hex>` | `err:ip` | `err:few` | `err:invalid` | other.
The SPEC verdict is computed by `expect` below — a direct reading of the property statement (suffix match
against the roots, label count), deliberately not sharing code with the model. -/
namespace Specter.C34
open Specter.Util

def parseRoots (t : String) : Option (List Str) :=
  if t = "_" then some [] else (t.splitOn ",").mapM hexToBytes

def render : Except Err Str → String
  | .ok n => "ok:" ++ bytesToHex n
  | .error e => e.token

/-! ### executable statement of the property (spec oracle) -/
def isUpper (c : Nat) : Bool := 65 ≤ c && c ≤ 90
def lc (h : Str) : Str := h.map fun c => if isUpper c then c + 32 else c

/-- `some l` when `h = l ++ "." ++ root` with a dot-free `l`. -/
def labelOf (h root : Str) : Option Str :=
  if h.length < root.length + 1 then none else
  let k := h.length - root.length - 1
  let l := h.take k
  if h.drop k == dot :: root && !(l.contains dot) then some l else none

/-- expected outcome: `none` = refused, `some n` = resolves to `n`. -/
def expect (roots : List Str) (host : Str) (isIP : Bool) : Option Str :=
  if isIP || (host.filter (· == dot)).length + 1 < 3 then none
  else
    let h := lc host
    match roots.filterMap (labelOf h) with
    | l :: _ => some l
    | [] => some h

def specCheck (roots : List Str) (host : Str) (isIP : Bool) (res : String) : Option String :=
  match expect roots host isIP with
  | none => if res.startsWith "err:" then none else some "must-be-refused"
  | some n => if res = "ok:" ++ bytesToHex n then none else some ("must-resolve-to ok:" ++ bytesToHex n)

def ascii (h : Str) : Bool := h.all (· < 128)
def rootsInQuantifier (roots : List Str) : Bool := roots.all fun r => ascii r && lc r == r

def one (roots : List Str) (host : Str) (isIP : Bool) (res : String) : Verdict :=
  if !(ascii host) then .bad "non-ascii host (outside the model's domain)" else
  let m := render (extract roots host isIP)
  match (if rootsInQuantifier roots then specCheck roots host isIP res else none) with
  | some why => .spec why
  | none => if m ≠ res then .diff m else .ok

def step (_ : Unit) (toks : List String) (rhs : String) : Unit × Verdict :=
  match toks with
  | ["ext", r, h, ip] =>
    match parseRoots r, hexToBytes h, parseBool ip with
    | some roots, some host, some isIP => ((), one roots host isIP rhs)
    | _, _, _ => ((), .bad "ext args")
  | ["pair", r, h1, ip1, h2, ip2] =>
    match parseRoots r, hexToBytes h1, parseBool ip1, hexToBytes h2, parseBool ip2, rhs.splitOn " " with
    | some roots, some a, some ia, some b, some ib, [ra, rb] =>
      -- the statement: hosts that differ only in ASCII letter case resolve to the same name
      if ascii a && ascii b && lc a == lc b && ra ≠ rb then ((), .spec s!"case-variants-resolve-differently {ra} vs {rb}")
      else match one roots a ia ra with
        | .ok => ((), one roots b ib rb)
        | v => ((), v)
    | _, _, _, _, _, _ => ((), .bad "pair args")
  | _ => ((), .bad "unknown op")

def main : IO Unit := runLoop () step

end Specter.C34
