#!/usr/bin/env python3
"""Print the standard builder prompt for a list of property ids."""
import json, sys
props = {json.loads(l)["id"]: json.loads(l) for l in open("/verif/properties.jsonl")}
ids = sys.argv[1:]
print("""You are one of several engineers building a verification framework in /verif for the Go repository /repo
(zllovesuki/specter: reverse-tunnel overlay network, Chord DHT, KV stores, QUIC). The technique is fixed:
machine-checked proof in Lean 4 of each property about a formal model, plus a CHECKED tie between the model and
the current Go source (differential correspondence through a line protocol, and/or definitions regenerated from
the source). The sandbox is offline. Lean 4.33 (lean/lake on PATH), Go toolchain present.

FIRST read /verif/BUILDING.md completely (conventions, file ownership, protocol, rules), then the worked example
(/verif/lean/SpecterModel/C11/*, /verif/harness/cmd/c11/main.go, /verif/spec/C11.json, /verif/check), then the
entries for your properties in /verif/DESIGN.md (search for '#### Cxx'; that is the intended model / theorem list /
tie — follow it where feasible, scale down honestly where not: a smaller TRUE theorem set that is fully proved and
tied beats an ambitious one that is not). Then read the Go code the property is anchored in, carefully.

Your properties (build them one after the other, finishing each — model, theorems, driver, harness, spec json,
green ./check on seeds 1..5 and thorough, two hand-made mutations (VERIF_MUTANT_DIR) caught — before starting the next):
""")
for i in ids:
    p = props[i]
    print("### %s — %s" % (i, p["title"]))
    print("Statement: " + p["statement"])
    print("Quantifier: %s — %s" % (", ".join(p["quantifier"]["over"]), p["quantifier"]["text"]))
    print("Why tests cannot settle it: " + p["why_tests_cant"])
    print("Anchors: files %s; mechanism %s" % (p["anchors"]["files"], [m.get("name", "") + " @ " + m.get("where", "") for m in p["anchors"]["mechanism"]]))
    print()
print("""Hard rules:
- You own ONLY the files of your properties as listed in BUILDING.md (lean/SpecterModel/Cxx/, harness/cmd/cxx/,
  harness/shims/<pkg>/cxx.go, extract/cxx_*.go, spec/Cxx.json). Do not edit ./check, Util.lean, hlib, other
  properties' files, MANIFEST.json, DESIGN.md, known_findings.json. If you need a change there, say so in your report.
- NEVER modify /repo (other engineers share it). Mutation experiments use a private mirror directory and
  VERIF_MUTANT_DIR as described in BUILDING.md. Never commit anywhere.
- Always take `flock /verif/build/lake.lock` around lake builds. Go: `export GOFLAGS=-mod=mod GOPROXY=off` and leave
  GOTOOLCHAIN/GOSUMDB unset.
- No sorry/admit/axiom/native_decide/bv_decide. Theorems must be real (all inputs / all sequences), non-vacuous.
- The check must be silent (exit 0, no VIOLATION) on the unchanged tree for every seed; if the real code violates the
  property statement, do not hide it: report the exact failing input to the lead in your final report.
- Line numbers in the anchors drift; find code by function name.
- Be economical: target ~150-400 lines of Lean per property. Do not get stuck: if a proof resists for more than ~20
  minutes, prove a clearly named `_partial` version and move on.
Final report (short): per property — theorems proved (name + one-line meaning), what is partial/assumed, harness coverage,
mutations tried and how the check reacted, any suspected genuine defect with the failing input.""")
