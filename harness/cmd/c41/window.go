package main

// win: ONE interleaving of the model, executed by two real overlay.QUIC transports.
//
// Both transports cache a shared connection e (established by a real DialStream). A further connection c between the
// two is then negotiated by the real reuseConnection at both ends (accessor VerifNegotiate = reuseConnection + what
// handleOutgoing / handleIncoming do with its result), but over negotiation streams that are RELAYED through the
// harness: the harness forwards the identities at once, receives both cache-status reports (= both snapshots have been
// taken) and delivers each report when the schedule says that the receiving end decides. Between any two of those
// points it can let e die (its far end is closed, as when the peer's process goes away) and wait until the
// close-watchers of both transports have reaped it. So the steps of the model are executed in a chosen order:
//
//	sPc,sQc   both ends take their snapshot (P = the side that dials c, Q = the side that accepts it)
//	dPc / dQc the report of the other end is delivered; the end decides and returns
//	kE,eP,eQ  e dies and is reaped at both sides
//
// in particular "an end reports CACHED, the cached connection dies and is reaped, the end decides". Reported in the
// vocabulary of the sched lines: the two caches (which connection, which direction), what each end returned, which
// connections are closed (lower case: with the negotiation's application error codes 508 / 406; upper case: any other
// way). The driver judges the property on the reported state (SPEC) and compares it with the model run of the same
// schedule (DIFF): this is the tie for the hand-written semantics around the extracted tables (which values a
// decision reads, what a reap does to a negotiation in flight).

import (
	"context"
	"crypto/tls"
	"errors"
	"fmt"
	"net"
	"strings"
	"sync"
	"time"

	"github.com/quic-go/quic-go"
	"go.miragespace.co/specter/overlay"
	"go.miragespace.co/specter/spec/protocol"
	"go.miragespace.co/specter/spec/rpc"
	"verif/harness/hlib"
)

type winPlan struct {
	sameDialer bool     // e was dialed by the side that dials c (pre e:out e:in) or by the other side (pre e:in e:out)
	steps      []string // model labels
}

func (p winPlan) lhs() string {
	pre := "e:in e:out"
	if p.sameDialer {
		pre = "e:out e:in"
	}
	return "win " + pre + " " + strings.Join(p.steps, ",")
}

// the schedules: e dies before / between / after the snapshots and the decisions, in both decision orders
var winOrders = [][]string{
	{"sPc", "sQc", "dPc", "dQc"},
	{"sPc", "sQc", "dQc", "dPc"},
	{"sPc", "sQc", "kE", "eP", "eQ", "dPc", "dQc"},
	{"sPc", "sQc", "kE", "eP", "eQ", "dQc", "dPc"},
	{"sPc", "sQc", "dQc", "kE", "eP", "eQ", "dPc"},
	{"sPc", "sQc", "dPc", "kE", "eP", "eQ", "dQc"},
	{"kE", "eP", "eQ", "sPc", "sQc", "dPc", "dQc"},
	{"sPc", "sQc", "dPc", "dQc", "kE", "eP", "eQ"},
}

func winPlans() []winPlan {
	var out []winPlan
	for _, same := range []bool{true, false} {
		for _, o := range winOrders {
			out = append(out, winPlan{same, o})
		}
	}
	return out
}

type rawEnd struct {
	pc net.PacketConn
	tr *quic.Transport
	ln *quic.Listener
}

func newRawEnd(cert tls.Certificate) (*rawEnd, error) {
	pc, err := net.ListenPacket("udp", "127.0.0.1:0")
	if err != nil {
		return nil, err
	}
	tr := &quic.Transport{Conn: pc}
	ln, err := tr.Listen(&tls.Config{Certificates: []tls.Certificate{cert}, NextProtos: []string{"c41w"}}, overlay.VerifQuicConfig())
	if err != nil {
		pc.Close()
		return nil, err
	}
	return &rawEnd{pc, tr, ln}, nil
}

func (e *rawEnd) close() {
	e.ln.Close()
	e.tr.Close()
	e.pc.Close()
}

// a connection from x to y: (dialing end, accepting end)
func rawConnect(ctx context.Context, x, y *rawEnd) (*quic.Conn, *quic.Conn, error) {
	type res struct {
		c   *quic.Conn
		err error
	}
	ch := make(chan res, 1)
	go func() {
		c, err := y.ln.Accept(ctx)
		ch <- res{c, err}
	}()
	out, err := x.tr.Dial(ctx, y.pc.LocalAddr(), &tls.Config{InsecureSkipVerify: true, NextProtos: []string{"c41w"}}, overlay.VerifQuicConfig())
	if err != nil {
		return nil, nil, err
	}
	r := <-ch
	if r.err != nil {
		return nil, nil, r.err
	}
	return out, r.c, nil
}

// a stream of the relay connection: (end handed to a transport, end held by the harness)
func relayStream(ctx context.Context, x, y *quic.Conn) (*quic.Stream, *quic.Stream, error) {
	xs, err := x.OpenStreamSync(ctx)
	if err != nil {
		return nil, nil, err
	}
	if _, err := xs.Write([]byte{0}); err != nil {
		return nil, nil, err
	}
	ys, err := y.AcceptStream(ctx)
	if err != nil {
		return nil, nil, err
	}
	var b [1]byte
	if _, err := ys.Read(b[:]); err != nil {
		return nil, nil, err
	}
	return xs, ys, nil
}

type negResult struct {
	c      *quic.Conn
	reused bool
	err    error
}

// how a connection was closed, seen from one of its ends: "" open, "neg" application error 508 / 406, "other"
func closeKind(c *quic.Conn) string {
	if c == nil || c.Context().Err() == nil {
		return ""
	}
	var ae *quic.ApplicationError
	if errors.As(context.Cause(c.Context()), &ae) && (ae.ErrorCode == 508 || ae.ErrorCode == 406) {
		return "neg"
	}
	return "other"
}

// one trial; returns (rhs, "") or ("", reason the scenario could not be set up)
func winTrial(cert tls.Certificate, plan winPlan) (string, string) {
	ctx, cancel := context.WithTimeout(context.Background(), 40*time.Second)
	defer cancel()
	p, err := newLivePeer(cert)
	if err != nil {
		return "", "peer"
	}
	defer p.close()
	q, err := newLivePeer(cert)
	if err != nil {
		return "", "peer"
	}
	defer q.close()
	nodeOf := func(x *livePeer) *protocol.Node { return &protocol.Node{Address: x.addr, Id: 1} }
	cachedP := func() *quic.Conn { return p.t.VerifCachedQuic(nodeOf(q)) }
	cachedQ := func() *quic.Conn { return q.t.VerifCachedQuic(nodeOf(p)) }
	live := func(c *quic.Conn) bool { return c != nil && c.Context().Err() == nil }

	// e: a real dial, by P or by Q
	from, to := p, q
	if !plan.sameDialer {
		from, to = q, p
	}
	dctx, dcancel := context.WithTimeout(ctx, 10*time.Second)
	st, err := from.t.DialStream(dctx, nodeOf(to), protocol.Stream_RPC)
	dcancel()
	if err != nil {
		return "", "dial-e-" + errKind(err)
	}
	st.Close()
	if !eventually(5*time.Second, func() bool { return live(cachedP()) && live(cachedQ()) }) {
		return "", "e-not-shared"
	}
	eP, eQ := cachedP(), cachedQ()
	if connID(eP) == "" || connID(eP) != connID(eQ) {
		return "", "e-not-shared"
	}

	// c: a connection between two auxiliary endpoints (reuseConnection identifies the peer by the identity it receives
	// on the negotiation stream, not by the connection's addresses), and the relay connection
	x, err := newRawEnd(cert)
	if err != nil {
		return "", "aux"
	}
	defer x.close()
	y, err := newRawEnd(cert)
	if err != nil {
		return "", "aux"
	}
	defer y.close()
	cP, cQ, err := rawConnect(ctx, x, y)
	if err != nil {
		return "", "aux-connect"
	}
	defer cP.CloseWithError(0, "verif: trial over")
	relX, relY, err := rawConnect(ctx, x, y)
	if err != nil {
		return "", "aux-connect"
	}
	defer relX.CloseWithError(0, "verif: trial over")
	sP, rP, err := relayStream(ctx, relX, relY)
	if err != nil {
		return "", "relay"
	}
	sQ, rQ, err := relayStream(ctx, relX, relY)
	if err != nil {
		return "", "relay"
	}

	recv := func(s *quic.Stream, max uint32) (*protocol.Connection, error) {
		m := &protocol.Connection{}
		s.SetReadDeadline(time.Now().Add(8 * time.Second))
		err := rpc.BoundedReceive(s, m, max)
		return m, err
	}
	resP := make(chan negResult, 1)
	resQ := make(chan negResult, 1)
	var stP, stQ *protocol.Connection
	var outP, outQ *negResult
	wait := func(ch chan negResult) *negResult {
		select {
		case r := <-ch:
			return &r
		case <-time.After(12 * time.Second):
			return nil
		}
	}
	for _, step := range plan.steps {
		switch step {
		case "sPc":
			// both ends start; identities cross; both reports are received by the relay = both snapshots are taken
			go func() {
				c, reused, err := p.t.VerifNegotiate(ctx, cP, sP, true)
				resP <- negResult{c, reused, err}
			}()
			go func() {
				c, reused, err := q.t.VerifNegotiate(ctx, cQ, sQ, false)
				resQ <- negResult{c, reused, err}
			}()
			idP, err1 := recv(rP, 256)
			idQ, err2 := recv(rQ, 256)
			if err1 != nil || err2 != nil {
				return "", "relay-identity"
			}
			if rpc.Send(rQ, idP) != nil || rpc.Send(rP, idQ) != nil {
				return "", "relay-identity"
			}
			if stP, err1 = recv(rP, 8); err1 != nil {
				return "", "relay-status"
			}
			if stQ, err2 = recv(rQ, 8); err2 != nil {
				return "", "relay-status"
			}
		case "sQc", "eP", "eQ": // part of the step before
		case "dPc":
			if rpc.Send(rP, stQ) != nil {
				return "", "relay-deliver"
			}
			if outP = wait(resP); outP == nil {
				return "", "P-did-not-decide"
			}
		case "dQc":
			if rpc.Send(rQ, stP) != nil {
				return "", "relay-deliver"
			}
			if outQ = wait(resQ); outQ == nil {
				return "", "Q-did-not-decide"
			}
			if outQ.err != nil {
				// AcceptWithListener: an incoming connection whose negotiation failed is closed with 406
				cQ.CloseWithError(406, outQ.err.Error())
			}
		case "kE":
			// e dies: its end at the side that accepted it goes away; both close-watchers reap it
			if plan.sameDialer {
				eQ.CloseWithError(0, "verif: connection lost")
			} else {
				eP.CloseWithError(0, "verif: connection lost")
			}
			if !eventually(8*time.Second, func() bool {
				return eP.Context().Err() != nil && eQ.Context().Err() != nil && cachedP() != eP && cachedQ() != eQ
			}) {
				return "", "e-not-reaped"
			}
		}
	}
	if outP == nil || outQ == nil {
		return "", "plan"
	}
	// let things settle: closes reach the other end, close-watchers reap what they watch. Nothing is due any more
	// when both ends of every connection agree about being closed and no cache holds a closed connection.
	settled := func() bool {
		for _, pair := range [][2]*quic.Conn{{eP, eQ}, {cP, cQ}} {
			if live(pair[0]) != live(pair[1]) {
				return false
			}
		}
		for _, c := range []*quic.Conn{cachedP(), cachedQ()} {
			if c != nil && !live(c) {
				return false
			}
		}
		return true
	}
	ok := eventually(5*time.Second, settled)
	time.Sleep(250 * time.Millisecond)
	if !ok || !eventually(2*time.Second, settled) {
		return "", "unsettled"
	}

	name := func(c *quic.Conn) string {
		switch c {
		case eP, eQ:
			return "e"
		case cP, cQ:
			return "c"
		}
		return "?"
	}
	entryOf := func(x *livePeer, c *quic.Conn) string {
		if c == nil {
			return "-"
		}
		d := "?"
		for _, v := range x.t.VerifCached() {
			switch v.Direction {
			case "Incoming":
				d = "in"
			case "Outgoing":
				d = "out"
			}
		}
		return name(c) + ":" + d
	}
	resOf := func(r *negResult) string {
		switch {
		case r.err != nil:
			return "err"
		case r.reused:
			return "reused:" + name(r.c)
		}
		return "fresh"
	}
	closed := ""
	for _, pair := range []struct {
		a, b *quic.Conn
		n    string
	}{{eP, eQ, "e"}, {cP, cQ, "c"}} {
		ka, kb := closeKind(pair.a), closeKind(pair.b)
		switch {
		case ka == "neg" || kb == "neg":
			closed += pair.n
		case ka != "" || kb != "":
			closed += strings.ToUpper(pair.n)
		}
	}
	if closed == "" {
		closed = "-"
	}
	return fmt.Sprintf("P=%s;Q=%s;closed=%s;Pc=%s;Qc=%s", entryOf(p, cachedP()), entryOf(q, cachedQ()), closed, resOf(outP), resOf(outQ)), ""
}

// win: the given schedules, a few at a time.
func win(r *hlib.Run, plans []winPlan) {
	cert := selfSigned()
	type out struct{ rhs, setup string }
	res := make([]out, len(plans))
	sem := make(chan struct{}, 4)
	var wg sync.WaitGroup
	for i := range plans {
		wg.Add(1)
		go func(i int) {
			defer wg.Done()
			sem <- struct{}{}
			defer func() { <-sem }()
			rhs, setup := winTrial(cert, plans[i])
			if setup != "" { // one more attempt: a loaded machine
				rhs, setup = winTrial(cert, plans[i])
			}
			res[i] = out{rhs, setup}
		}(i)
	}
	wg.Wait()
	for i, pl := range plans {
		r.Raw("# case win")
		rhs := res[i].rhs
		if res[i].setup != "" {
			rhs = "setup:" + res[i].setup
			r.Count("win:setup-failed")
		} else {
			r.Count("win:executed")
			if strings.Contains(strings.Join(pl.steps, ","), "kE,eP,eQ,d") && strings.HasPrefix(pl.steps[0], "s") {
				r.Count("win:e-reaped-between-report-and-decision")
			}
		}
		r.Emit(pl.lhs(), rhs)
		r.Case(pl.lhs())
	}
}
