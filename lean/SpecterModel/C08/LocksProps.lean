import SpecterModel.C08.Locks
import SpecterModel.C08.GenLocks
/-!
# C08 — the lock order of `LocalNode`, as extracted from the code, is acyclic

`Gen.C08.edges` (regenerated from `/repo/chord/*.go` on every run of the check) lists every place where a function
of package chord takes one of `LocalNode`'s mutexes while it holds another one. The obligation
`chord_lock_order_acyclic` (by `decide`, re-checked against the regenerated text) is the executable rank check of
`Locks.lean`; with it the generic theorems give, for any number of goroutines that follow the extracted edges:
no wait cycle is ever reached (`chord_no_lock_deadlock`) and blocked goroutines never all wait on each other
(`chord_lock_progress`) — so a join request is not left unanswered because of the node's own mutexes.
-/
namespace Specter.C08.Locks

/-- the extracted edges, labels dropped -/
def chordEdges : Edges := Gen.C08.edges.map (fun e => (e.1, e.2.1))

def chordLocks : Nat := Gen.C08.mutexes.length

/-- Names the cycle in the build output when the order is broken (the `decide` below then fails as well). -/
def lockOrderCycle : Option String :=
  (findCycle Gen.C08.edges).map (describeCycle Gen.C08.mutexes)

#eval show IO Unit from
  match lockOrderCycle with
  | none => pure ()
  | some c => throw (IO.userError s!"lock-order cycle among the mutexes of LocalNode: {c}")

/-- **Obligation (re-checked against the regenerated edges).** The lock-order edges of package chord admit a rank
function: every edge goes from a lower to a higher rank. -/
theorem chord_lock_order_acyclic : acyclicCheck chordEdges chordLocks = true := by decide

/-- No schedule of any number of goroutines that take `LocalNode`'s mutexes in the extracted order reaches a
wait cycle. -/
theorem chord_no_lock_deadlock (n : Nat) (s : State) (h : Reachable chordEdges n s) : ¬ Deadlock s :=
  no_deadlock_of_check chordEdges chordLocks chord_lock_order_acyclic n s h

/-- … and whenever some goroutine is blocked on one of the mutexes, one of them can take its lock or a running
holder can release: nobody waits for ever on the others. -/
theorem chord_lock_progress (n : Nat) (s : State) (h : Reachable chordEdges n s)
    (hw : ∃ th ∈ s, th.want ≠ none) : ∃ a s', a.isProgress = true ∧ step chordEdges s a = some s' :=
  progress_of_check chordEdges chordLocks chord_lock_order_acyclic n s h hw

/-! ## non-vacuity -/

/-- the order as it is in the code today: predecessorMu = 0, surrogateMu = 1, successorsMu = 2;
surrogateMu → predecessorMu → successorsMu (RequestToJoin, kvMiddleware) -/
def todayEdges : Edges := [(1, 0), (1, 2), (0, 2), (1, 0)]

example : acyclicCheck todayEdges 3 = true := by decide
/-- ranks: surrogateMu 0 < predecessorMu 1 < successorsMu 2 -/
example : ranks todayEdges 3 = [1, 0, 2] := by decide

/-- the discipline is not empty: the join hand-off (takes 1, then 0, then 2, releases all) and a concurrent
stabilize (takes 2, releases it) run to completion, stabilize being blocked in between -/
example : run todayEdges (init 2)
    [.request 0 1, .acquire 0, .request 0 0, .acquire 0, .request 1 2, .acquire 1, .request 0 2,
     .release 1 2, .acquire 0, .release 0 2, .release 0 0, .release 0 1] = some [{}, {}] := by decide

/-- the hypotheses of `chord_lock_progress` are satisfiable: a reachable state with a blocked thread -/
example : ∃ s, Reachable todayEdges 2 s ∧ ∃ th ∈ s, th.want ≠ none :=
  ⟨[{ held := [0, 1], want := some 2 }, { held := [2] }],
   ⟨[.request 0 1, .acquire 0, .request 0 0, .acquire 0, .request 1 2, .acquire 1, .request 0 2], by decide⟩,
   { held := [0, 1], want := some 2 }, by simp, by simp⟩

/-- an inverted order: a maintenance task that takes predecessorMu (0) while holding successorsMu (2) -/
def invertedEdges : Edges := todayEdges ++ [(2, 0)]

example : acyclicCheck invertedEdges 3 = false := by decide
example : findCycle [(1, 0, "RequestToJoin"), (0, 2, "RequestToJoin>getSuccessors"), (2, 0, "stabilize")] =
    some [(0, 2, "RequestToJoin>getSuccessors"), (2, 0, "stabilize")] := by decide

/-- **The obligation is not vacuous**: with the inverted edge the model does reach a deadlock — the join request
(thread 0) holds surrogateMu and predecessorMu and waits for successorsMu, the task (thread 1) holds successorsMu
and waits for predecessorMu; by `deadlock_permanent` neither ever runs again. -/
theorem inverted_order_deadlocks : ∃ s, Reachable invertedEdges 2 s ∧ Deadlock s := by
  refine ⟨[{ held := [0, 1], want := some 2 }, { held := [2], want := some 0 }],
    ⟨[.request 0 1, .acquire 0, .request 0 0, .acquire 0, .request 1 2, .acquire 1, .request 1 0, .request 0 2],
      by decide⟩, 0, [1], ?_, ?_, trivial⟩
  · exact ⟨_, _, 2, rfl, rfl, rfl, by simp⟩
  · exact ⟨_, _, 0, rfl, rfl, rfl, by simp⟩

end Specter.C08.Locks
