import SpecterModel.C39.Lemmas
/-!
# C39 — the in-memory stream pipe is a faithful byte stream

Theorems about the model of `util/bufconn/bufconn.go` in `Model.lean` (ring buffer exactly as coded +
small-step layer with the two condition variables), for ALL capacities ≥ 1 and ALL event sequences
(= all write chunkings, read sizes and reader/writer interleavings at mutex granularity).
`cap = 0` is a stated exclusion (`Write` of a non-empty slice would spin; the transport uses 8192).
-/
namespace Specter.C39

/-- The global invariant of the small-step system (with ghost trace). -/
structure SInv (c : Nat) (t : Trace) : Prop where
  inv : Inv t.s.p
  cap_eq : t.s.p.cap = c
  /-- conservation: delivered ++ buffered = copied in -/
  conserve : t.got ++ t.s.p.abs = t.put
  /-- a reader parked in `rwait` has nothing to return: no lost wake-up -/
  rwait : ∀ n, t.s.rt = .waiting n →
    t.s.p.abs = [] ∧ t.s.p.closed = false ∧ t.s.p.writeClosed = false ∧ t.s.p.rtimedout = false
  /-- a writer parked in `wwait` cannot make progress: no lost wake-up -/
  wwait : ∀ rest n, t.s.wt = .waiting rest n →
    rest ≠ [] ∧ t.s.p.full = true ∧ t.s.p.closed = false ∧ t.s.p.writeClosed = false ∧ t.s.p.wtimedout = false
  /-- a writer that was woken still has bytes to write -/
  wwoken : ∀ rest n, t.s.wt = .woken rest n → rest ≠ []

theorem wakeR_not_waiting (t : RTh) (n : Nat) : wakeR t ≠ .waiting n := by cases t <;> simp [wakeR]
theorem wakeW_not_waiting (t : WTh) (r : List Nat) (n : Nat) : wakeW t ≠ .waiting r n := by cases t <;> simp [wakeW]
theorem wakeW_woken (t : WTh) (r : List Nat) (n : Nat) (h : wakeW t = .woken r n) : t = .waiting r n ∨ t = .woken r n := by
  cases t <;> simp_all [wakeW]
theorem wwoken_wake {c : Nat} (t : Trace) (h : SInv c t) (r : List Nat) (n : Nat) (hw : wakeW t.s.wt = .woken r n) : r ≠ [] := by
  rcases wakeW_woken _ _ _ hw with a | a
  · exact (h.wwait r n a).1
  · exact h.wwoken r n a

theorem sinv_rAttempt {c : Nat} (t : Trace) (n : Nat) (h : SInv c t) :
    let q := rAttempt t.s n
    SInv c { s := q.1, got := t.got ++ q.2.2.1, put := t.put ++ q.2.2.2 } := by
  have rs := readStep_spec t.s.p n h.inv
  unfold rAttempt
  generalize readStep t.s.p n = q at rs
  obtain ⟨qp, qo, qs⟩ := q
  obtain ⟨i, f, m⟩ := rs
  unfold sameFlags at f
  simp only at i f m
  cases qo <;> simp only at m ⊢
  · -- data
    obtain ⟨m1, m2, m3, m4, m5⟩ := m
    refine ⟨i, by rw [← h.cap_eq]; exact f.2.2.2.2, ?_, ?_, ?_, ?_⟩
    · simp only [List.append_nil, List.append_assoc]; rw [← m2]; exact h.conserve
    · intro k hk; simp at hk
    · intro rest k hk
      simp only at hk
      by_cases cs : qs = true
      · simp only [cs, if_true] at hk; exact absurd hk (wakeW_not_waiting _ _ _)
      · simp only [cs, if_false, Bool.false_eq_true] at hk
        have := (h.wwait rest k hk).2.1
        rw [m5] at cs; exact absurd this cs
    · intro rest k hk
      simp only at hk
      by_cases cs : qs = true
      · simp only [cs, if_true] at hk; exact wwoken_wake t h rest k hk
      · simp only [cs, if_false, Bool.false_eq_true] at hk; exact h.wwoken rest k hk
  · obtain ⟨m1, _, _, _, hq⟩ := m
    subst m1; subst hq
    exact ⟨i, h.cap_eq, by simpa using h.conserve, by intro k hk; simp at hk, fun rest k hk => h.wwait rest k (by simpa using hk), fun rest k hk => h.wwoken rest k (by simpa using hk)⟩
  · obtain ⟨m1, _, hq⟩ := m
    subst m1; subst hq
    exact ⟨i, h.cap_eq, by simpa using h.conserve, by intro k hk; simp at hk, fun rest k hk => h.wwait rest k (by simpa using hk), fun rest k hk => h.wwoken rest k (by simpa using hk)⟩
  · obtain ⟨m1, _, _, _, _, hq⟩ := m
    subst m1; subst hq
    exact ⟨i, h.cap_eq, by simpa using h.conserve, by intro k hk; simp at hk, fun rest k hk => h.wwait rest k (by simpa using hk), fun rest k hk => h.wwoken rest k (by simpa using hk)⟩
  · obtain ⟨m1, b1, b2, b3, b4, hq⟩ := m
    subst m1
    exact ⟨i, h.cap_eq, by simpa using h.conserve, fun k _ => ⟨b2, b1, b3, b4⟩, fun rest k hk => h.wwait rest k (by simpa using hk), fun rest k hk => h.wwoken rest k (by simpa using hk)⟩

theorem sinv_wFinish {c : Nat} (t : Trace) (bs : List Nat) (n : Nat) (q : Pipe × WOut × Bool × List Nat)
    (h : SInv c t) (ws : WriteSpec t.s.p bs n false [] q) :
    SInv c { s := (wFinish t.s q).1, got := t.got ++ (wFinish t.s q).2.2.1, put := t.put ++ (wFinish t.s q).2.2.2 } := by
  obtain ⟨qp, qo, qs, qc⟩ := q
  obtain ⟨i, f, k, hk, a, cp, sg, m⟩ := ws
  unfold sameFlags at f
  simp only at i f a cp sg m
  have hcap : qp.cap = c := by rw [← h.cap_eq]; exact f.2.2.2.2
  have hcons : t.got ++ [] ++ qp.abs = t.put ++ qc := by
    rw [a, cp, ← h.conserve]; simp
  have hrw : ∀ m, (if qs = true then wakeR t.s.rt else t.s.rt) = RTh.waiting m →
      qp.abs = [] ∧ qp.closed = false ∧ qp.writeClosed = false ∧ qp.rtimedout = false := by
    intro m hm
    by_cases cs : qs = true
    · simp only [cs, if_true] at hm; exact absurd hm (wakeR_not_waiting _ _)
    · simp only [cs] at hm
      obtain ⟨r1, r2, r3, r4⟩ := h.rwait m hm
      have he := (empty_iff _ h.inv).mpr r1
      rw [he] at sg
      have hk0 : k = 0 := by
        cases hq : qs
        · rw [hq] at sg; simp at sg; exact sg
        · exact absurd hq cs
      subst hk0
      refine ⟨by rw [a, r1]; simp, by rw [f.1]; exact r2, by rw [f.2.1]; exact r3, by rw [f.2.2.1]; exact r4⟩
  unfold wFinish
  cases qo <;> simp only at m ⊢
  case block rest mm =>
    obtain ⟨m1, m2, m3, m4, m5, m6, m7⟩ := m
    refine ⟨i, hcap, hcons, hrw, ?_, by intro r' n' hw; simp at hw⟩
    intro r' n' hw
    simp only [WTh.waiting.injEq] at hw
    obtain ⟨e1, e2⟩ := hw
    subst e1
    exact ⟨m2, m4, by rw [f.1]; exact m5, by rw [f.2.1]; exact m6, by rw [f.2.2.2.1]; exact m7⟩
  all_goals exact ⟨i, hcap, hcons, hrw, by intro r' n' hw; simp at hw, by intro r' n' hw; simp at hw⟩

theorem sinv_flag {c : Nat} (t : Trace) (p' : Pipe) (rt' : RTh) (wt' : WTh) (h : SInv c t)
    (hd : p'.arr = t.s.p.arr ∧ p'.len = t.s.p.len ∧ p'.w = t.s.p.w ∧ p'.r = t.s.p.r)
    (hr : ∀ n, rt' = .waiting n → t.s.rt = .waiting n ∧ p'.closed = t.s.p.closed ∧
        p'.writeClosed = t.s.p.writeClosed ∧ (p'.rtimedout = t.s.p.rtimedout ∨ p'.rtimedout = false))
    (hw : ∀ r n, wt' = .waiting r n → t.s.wt = .waiting r n ∧ p'.closed = t.s.p.closed ∧
        p'.writeClosed = t.s.p.writeClosed ∧ (p'.wtimedout = t.s.p.wtimedout ∨ p'.wtimedout = false))
    (hk : wt' = t.s.wt ∨ wt' = wakeW t.s.wt) :
    SInv c { s := { p := p', rt := rt', wt := wt' }, got := t.got ++ [], put := t.put ++ [] } := by
  obtain ⟨d1, d2, d3, d4⟩ := sameData t.s.p p' hd
  refine ⟨d1 h.inv, by rw [← h.cap_eq]; simp only [Pipe.cap, hd.1], by simp only [List.append_nil, d2]; exact h.conserve, ?_, ?_, ?_⟩
  · intro n hn
    obtain ⟨a, b, c, d⟩ := hr n hn
    obtain ⟨r1, r2, r3, r4⟩ := h.rwait n a
    refine ⟨by simp only [d2]; exact r1, by simp only [b]; exact r2, by simp only [c]; exact r3, ?_⟩
    simp only; cases d with
    | inl d => rw [d]; exact r4
    | inr d => exact d
  · intro r n hn
    obtain ⟨a, b, c, d⟩ := hw r n hn
    obtain ⟨r0, r1, r2, r3, r4⟩ := h.wwait r n a
    refine ⟨r0, by simp only [d3]; exact r1, by simp only [b]; exact r2, by simp only [c]; exact r3, ?_⟩
    simp only; cases d with
    | inl d => rw [d]; exact r4
    | inr d => exact d
  · intro r n hn
    simp only at hn
    rcases hk with e | e
    · rw [e] at hn; exact h.wwoken r n hn
    · rw [e] at hn; exact wwoken_wake t h r n hn

theorem sinv_id {c : Nat} (t : Trace) (h : SInv c t) : SInv c { s := t.s, got := t.got ++ [], put := t.put ++ [] } := by
  simpa using h

/-- Every atomic step preserves the invariant. -/
theorem sinv_step {c : Nat} (t : Trace) (e : Ev) (h : SInv c t) : SInv c (t.step e) := by
  unfold Trace.step step
  cases e with
  | read n =>
    simp only
    cases hrt : t.s.rt <;> simp only
    · exact sinv_rAttempt t n h
    · exact sinv_id t h
    · exact sinv_id t h
  | rresume =>
    simp only
    cases hrt : t.s.rt <;> simp only
    · exact sinv_id t h
    · exact sinv_id t h
    · exact sinv_rAttempt t _ h
  | write bs =>
    simp only
    cases hwt : t.s.wt <;> simp only
    · rcases writeStart_spec t.s.p bs h.inv with ⟨c, e⟩ | ⟨c, ws⟩
      · rw [e]; unfold wFinish; simp only [Bool.false_eq_true, if_false]
        exact sinv_flag t t.s.p t.s.rt .idle h ⟨rfl, rfl, rfl, rfl⟩
          (fun n hn => ⟨hn, rfl, rfl, Or.inl rfl⟩) (fun r n hn => by simp at hn) (Or.inl hwt.symm)
      · exact sinv_wFinish t bs 0 _ h ws
    · exact sinv_id t h
    · exact sinv_id t h
  | wresume =>
    simp only
    cases hwt : t.s.wt <;> simp only
    · exact sinv_id t h
    · exact sinv_id t h
    · exact sinv_wFinish t _ _ _ h (writeResume_spec t.s.p _ _ h.inv)
  | close =>
    exact sinv_flag t _ _ _ h ⟨rfl, rfl, rfl, rfl⟩
      (fun n hn => absurd hn (wakeR_not_waiting _ _)) (fun r n hn => absurd hn (wakeW_not_waiting _ _ _)) (Or.inr rfl)
  | closeWrite =>
    exact sinv_flag t _ _ _ h ⟨rfl, rfl, rfl, rfl⟩
      (fun n hn => absurd hn (wakeR_not_waiting _ _)) (fun r n hn => absurd hn (wakeW_not_waiting _ _ _)) (Or.inr rfl)
  | rtimer =>
    exact sinv_flag t _ _ _ h ⟨rfl, rfl, rfl, rfl⟩
      (fun n hn => absurd hn (wakeR_not_waiting _ _)) (fun r n hn => ⟨hn, rfl, rfl, Or.inl rfl⟩) (Or.inl rfl)
  | wtimer =>
    exact sinv_flag t _ _ _ h ⟨rfl, rfl, rfl, rfl⟩
      (fun n hn => ⟨hn, rfl, rfl, Or.inl rfl⟩) (fun r n hn => absurd hn (wakeW_not_waiting _ _ _)) (Or.inr rfl)
  | rclear =>
    exact sinv_flag t _ _ _ h ⟨rfl, rfl, rfl, rfl⟩
      (fun n hn => ⟨hn, rfl, rfl, Or.inr rfl⟩) (fun r n hn => ⟨hn, rfl, rfl, Or.inl rfl⟩) (Or.inl rfl)
  | wclear =>
    exact sinv_flag t _ _ _ h ⟨rfl, rfl, rfl, rfl⟩
      (fun n hn => ⟨hn, rfl, rfl, Or.inl rfl⟩) (fun r n hn => ⟨hn, rfl, rfl, Or.inr rfl⟩) (Or.inl rfl)
