import SpecterModel.C30.Model
/-!
# C30 — Keyless TLS serves only the bound client, with valid inputs

Theorems over the model of `getCertificate` / `Sign` (reusing C29's `checkAcme` model) and over the TTL
chain of `computeKeylessTTL` with the constants GENERATED from tun/server/keyless_cache.go (Gen.lean,
regenerated and re-checked on every run). Tie: harness/cmd/c30 runs the real RPCs, the real
`computeKeylessTTL` and the real cache loader against these definitions.
-/
namespace Specter.C30
open Specter.C29 (Cfg State Client Code Chk checkAcme)

/-! ### who gets certificates and signatures -/

theorem checkAcme_found {cfg : Cfg} {kv : State} {caller : Client} {h : String} {p g : Bool}
    (hf : checkAcme cfg kv caller h p g = .found) :
    p = true ∧ kv.bound h = some caller ∧ g = false
      ∧ C29.contains h cfg.acme = false ∧ C29.contains h cfg.apex = false ∧ 2 ≤ C29.dots h := by
  unfold checkAcme at hf
  by_cases hp : p = true
  · by_cases hz : (C29.contains h cfg.acme || C29.contains h cfg.apex) = true
    · simp [hp, hz] at hf
    · by_cases hd : C29.dots h < 2
      · simp [hp, hz, hd] at hf
      · by_cases hg : g = true
        · simp [hp, hz, hd, hg] at hf
        · simp only [hp, hz, hd, hg, Bool.not_true, Bool.false_eq_true, if_false] at hf
          cases hb : kv.bound h with
          | none => simp [hb] at hf
          | some c =>
            simp only [hb] at hf
            by_cases hc : c = caller
            · simp at hz hg; exact ⟨hp, by rw [hc], hg, hz.1, hz.2, by omega⟩
            · simp [hc] at hf
  · simp [hp] at hf

/-- the provider is consulted, the cache touched, or a certificate returned only after `checkAcme`
answered *found* -/
theorem getCertificate_guard (cfg : Cfg) (kv : State) (cache : Cache) (r : Req)
    (h : (getCertificate cfg kv cache r).res = none ∨ (getCertificate cfg kv cache r).called = true
          ∨ (getCertificate cfg kv cache r).res = some .provider) :
    ∃ hn, r.norm = some hn ∧ checkAcme cfg kv r.caller hn r.powOk r.kvGetFail = .found := by
  unfold getCertificate at h
  cases hn : r.norm with
  | none => simp [hn] at h
  | some hh =>
    refine ⟨hh, rfl, ?_⟩
    simp only [hn] at h
    cases hc : checkAcme cfg kv r.caller hh r.powOk r.kvGetFail with
    | found => rfl
    | notFound => simp [hc] at h
    | refused c n => cases c <;> simp [hc, ofCode] at h

/-- **certificates only for the bound client**: a certificate chain is returned only when the
normalised hostname is bound to the caller and the proof of work is valid. -/
theorem cert_only_for_bound (cfg : Cfg) (kv : State) (cache : Cache) (r : Req)
    (h : (getCertificate cfg kv cache r).res = none) :
    ∃ hn, r.norm = some hn ∧ kv.bound hn = some r.caller ∧ r.powOk = true := by
  obtain ⟨hn, e, hf⟩ := getCertificate_guard cfg kv cache r (Or.inl h)
  have := checkAcme_found hf
  exact ⟨hn, e, this.2.1, this.1⟩

/-- the certificate provider (and the cache) is never even consulted for anybody else -/
theorem provider_only_for_bound (cfg : Cfg) (kv : State) (cache : Cache) (r : Req)
    (h : (getCertificate cfg kv cache r).called = true) :
    ∃ hn, r.norm = some hn ∧ kv.bound hn = some r.caller ∧ r.powOk = true := by
  obtain ⟨hn, e, hf⟩ := getCertificate_guard cfg kv cache r (Or.inr (Or.inl h))
  have := checkAcme_found hf
  exact ⟨hn, e, this.2.1, this.1⟩

/-- other client / unbound hostname / no proof: refused, cache untouched, provider not called -/
theorem not_entitled_refused (cfg : Cfg) (kv : State) (cache : Cache) (r : Req)
    (h : r.powOk = false ∨ r.norm = none ∨ ∃ hn, r.norm = some hn ∧ kv.bound hn ≠ some r.caller) :
    (getCertificate cfg kv cache r).res ≠ none ∧ (getCertificate cfg kv cache r).called = false
      ∧ (getCertificate cfg kv cache r).cache = cache := by
  have key : ¬ ∃ hn, r.norm = some hn ∧ checkAcme cfg kv r.caller hn r.powOk r.kvGetFail = .found := by
    rintro ⟨hn, e, hf⟩
    have := checkAcme_found hf
    rcases h with h | h | ⟨x, hx, hb⟩
    · rw [h] at this; exact absurd this.1 (by simp)
    · rw [h] at e; cases e
    · rw [e] at hx; injection hx with hx; subst hx; exact hb this.2.1
  refine ⟨fun hres => key (getCertificate_guard cfg kv cache r (Or.inl hres)), ?_, ?_⟩
  · cases hc : (getCertificate cfg kv cache r).called with
    | false => rfl
    | true => exact absurd (getCertificate_guard cfg kv cache r (Or.inr (Or.inl hc))) key
  · unfold getCertificate
    cases hn : r.norm with
    | none => rfl
    | some hh =>
      simp only
      cases hc : checkAcme cfg kv r.caller hh r.powOk r.kvGetFail with
      | found => exact absurd ⟨hh, hn, hc⟩ key
      | notFound => rfl
      | refused c n => rfl

/-- **sign guards**: a signature is returned only to the bound client with a valid proof, for a
supported hash (SHA-256/384/512) and a digest of exactly that hash's length, by a real signer. -/
theorem sign_guards (cfg : Cfg) (kv : State) (cache : Cache) (r : Req) (algo dlen : Nat) (isSigner signOk : Bool)
    (h : (sign cfg kv cache r algo dlen isSigner signOk).res = none) :
    (∃ hn, r.norm = some hn ∧ kv.bound hn = some r.caller ∧ r.powOk = true)
      ∧ ((algo = 1 ∧ dlen = 32) ∨ (algo = 2 ∧ dlen = 48) ∨ (algo = 3 ∧ dlen = 64))
      ∧ isSigner = true ∧ signOk = true := by
  unfold sign at h
  simp only at h
  cases hg : (getCertificate cfg kv cache r).res with
  | some e => simp [hg] at h
  | none =>
    refine ⟨cert_only_for_bound cfg kv cache r hg, ?_⟩
    simp only [hg] at h
    cases hs : hashSize algo with
    | none => simp [hs] at h
    | some n =>
      simp only [hs] at h
      by_cases h1 : isSigner = true
      · by_cases h2 : dlen = n
        · by_cases h3 : signOk = true
          · refine ⟨?_, h1, h3⟩
            subst h2
            unfold hashSize at hs
            split at hs <;> simp_all
          · simp [h1, h2, h3] at h
        · simp [h1, h2] at h
      · simp [h1] at h

/-- the guards are evaluated before the signer is touched: when algorithm or digest length is wrong the
answer does not depend on what the signer would do -/
theorem sign_guards_before_signer (cfg : Cfg) (kv : State) (cache : Cache) (r : Req) (algo dlen : Nat)
    (isSigner : Bool) (hbad : hashSize algo ≠ some dlen) :
    sign cfg kv cache r algo dlen isSigner true = sign cfg kv cache r algo dlen isSigner false := by
  unfold sign
  simp only
  cases (getCertificate cfg kv cache r).res with
  | some e => rfl
  | none =>
    cases hs : hashSize algo with
    | none => rfl
    | some n =>
      have : dlen ≠ n := fun e => hbad (by rw [hs, e])
      simp [this]

/-- wrong algorithm / wrong digest length are invalid-argument refusals for the owner -/
theorem sign_bad_input_refused (cfg : Cfg) (kv : State) (cache : Cache) (r : Req) (algo dlen : Nat)
    (isSigner signOk : Bool) (hbad : hashSize algo ≠ some dlen) :
    (sign cfg kv cache r algo dlen isSigner signOk).res ≠ none := by
  intro h
  obtain ⟨-, hsz, -, -⟩ := sign_guards cfg kv cache r algo dlen isSigner signOk h
  rcases hsz with ⟨rfl, rfl⟩ | ⟨rfl, rfl⟩ | ⟨rfl, rfl⟩ <;> simp [hashSize] at hbad

/-! ### cache TTL (over the generated constants) -/

theorem skew_pos : 0 < Gen.C30.keylessExpirySkew := by decide
theorem pos_gt_second : second < Gen.C30.keylessPositiveTTL := by decide
theorem failed_pos : 0 < Gen.C30.keylessFailedTTL := by decide

/-- closed form: remaining validity after the skew, clamped to [.., 5 min], floor 1 s when nothing remains -/
theorem ttlOf_eq (d : Int) :
    ttlOf d = if d - Gen.C30.keylessExpirySkew ≤ 0 then second
              else min (d - Gen.C30.keylessExpirySkew) Gen.C30.keylessPositiveTTL := by
  unfold ttlOf
  simp only
  have e : d + -Gen.C30.keylessExpirySkew = d - Gen.C30.keylessExpirySkew := by omega
  rw [e]
  split
  · rfl
  · split <;> omega

theorem ttl_pos (leaf : Option Int) : 0 < computeTTL leaf := by
  have := pos_gt_second
  cases leaf with
  | none => simp only [computeTTL]; unfold second at this; omega
  | some d =>
    simp only [computeTTL, ttlOf]
    unfold second at *
    split
    · omega
    · split <;> omega

theorem ttl_le_positive (leaf : Option Int) : computeTTL leaf ≤ Gen.C30.keylessPositiveTTL := by
  have := pos_gt_second
  cases leaf with
  | none => simp [computeTTL]
  | some d =>
    simp only [computeTTL, ttlOf]
    split
    · omega
    · split <;> omega

/-- **never cached past expiry − skew**: with `d = NotAfter − now`, the entry expires no later than
`NotAfter − skew`; the only exception is the 1 s floor used when that moment is already reached (a TTL ≤ 0
would mean "no expiry" to the cache). -/
theorem never_cached_past_expiry (d : Int) :
    ttlOf d ≤ d - Gen.C30.keylessExpirySkew ∨ (ttlOf d = second ∧ d - Gen.C30.keylessExpirySkew ≤ 0) := by
  unfold ttlOf
  simp only
  split
  · right; exact ⟨rfl, by omega⟩
  · left; split <;> omega

theorem ttl_bound (d : Int) : ttlOf d ≤ max (d - Gen.C30.keylessExpirySkew) second := by
  rcases never_cached_past_expiry d with h | ⟨h, -⟩ <;> omega

/-- the TTL is NOT monotone in the remaining validity (1 s floor vs. a few ns left); the exact set of
TTLs the loader can produce when it reads the clock somewhere in a bracket is decided by `ttlReachable` -/
theorem ttlReachable_iff (d1 d0 t : Int) (h : d1 ≤ d0) :
    ttlReachable d1 d0 t = true ↔ ∃ d, d1 ≤ d ∧ d ≤ d0 ∧ ttlOf d = t := by
  have hps := pos_gt_second
  have hsk := skew_pos
  have hpp : 0 < Gen.C30.keylessPositiveTTL := by decide
  unfold ttlReachable
  simp only [Bool.or_eq_true, Bool.and_eq_true, decide_eq_true_eq, beq_iff_eq]
  constructor
  · rintro ((⟨rfl, h1⟩ | ⟨⟨⟨h1, h2⟩, h3⟩, h4⟩) | ⟨rfl, h1⟩)
    · exact ⟨d1, Int.le_refl _, h, by unfold ttlOf; simp only; split <;> omega⟩
    · refine ⟨t + Gen.C30.keylessExpirySkew, h3, h4, ?_⟩
      unfold ttlOf; simp only; split
      · omega
      · split <;> omega
    · refine ⟨d0, h, Int.le_refl _, ?_⟩
      unfold ttlOf; simp only; split
      · omega
      · split <;> omega
  · rintro ⟨d, h1, h2, rfl⟩
    unfold ttlOf; simp only
    unfold second at *
    split
    · left; left; exact ⟨rfl, by omega⟩
    · split
      · left; right; omega
      · right; exact ⟨rfl, by omega⟩

theorem ttl_mono_of_pos (d₁ d₂ : Int) (h : d₁ ≤ d₂) (hp : 0 < d₁ - Gen.C30.keylessExpirySkew) :
    ttlOf d₁ ≤ ttlOf d₂ := by
  unfold ttlOf
  simp only
  split <;> split <;> (try split) <;> (try split) <;> omega

/-- the loader's `if ret.TTL <= 0` fallback is dead: it always stores the computed TTL for a certificate,
hence the bound above applies to what the cache is told -/
theorem loader_ttl (leaf : Option Int) :
    loaderTTL .cert leaf = computeTTL leaf ∧ loaderTTL .fail leaf = Gen.C30.keylessFailedTTL
      ∧ loaderTTL .empty leaf = Gen.C30.keylessFailedTTL ∧ Gen.C30.keylessFailedTTL < Gen.C30.keylessPositiveTTL := by
  have := ttl_pos leaf
  refine ⟨?_, rfl, rfl, by decide⟩
  simp only [loaderTTL]
  split
  · omega
  · rfl

/-! ### the loader on a timeline: slow certificate providers -/

/-- `ttlAllowed` (the statement's predicate, also the driver's SPEC oracle) holds for `computeKeylessTTL`
at the instant its `now` was read -/
theorem ttl_allowed (d : Int) : ttlAllowed d (ttlOf d) = true := by
  have h1 := ttl_bound d
  have h2 := ttl_pos (some d)
  simp only [computeTTL] at h2
  simp [ttlAllowed, h1, h2]

/-- allowed at a later instant ⇒ allowed at every earlier one (less validity has elapsed) -/
theorem ttlAllowed_mono {d d' t : Int} (h : d ≤ d') (ha : ttlAllowed d t = true) : ttlAllowed d' t = true := by
  simp only [ttlAllowed, Bool.and_eq_true, decide_eq_true_eq] at *
  omega

/-- **a slow provider never stretches the entry**: for every run in program order (the clock is read again
after the provider answered), whatever the provider latency `ret − start`, a cached certificate's entry,
whose lifetime starts no earlier than `now`, ends by `NotAfter − skew` — or is the 1 s floor for a certificate
that is already inside the skew when it arrives. -/
theorem loader_run_never_past_expiry (notAfter : Int) (r : Run) :
    let t := loaderRunTTL .cert (some notAfter) r
    0 < t ∧ (r.now + t ≤ notAfter - Gen.C30.keylessExpirySkew
              ∨ (t = second ∧ notAfter - Gen.C30.keylessExpirySkew ≤ r.now)) := by
  simp only [loaderRunTTL, Option.map, (loader_ttl (some (notAfter - r.now))).1, computeTTL]
  refine ⟨by simpa [computeTTL] using ttl_pos (some (notAfter - r.now)), ?_⟩
  rcases never_cached_past_expiry (notAfter - r.now) with h | ⟨h, h'⟩
  · left; omega
  · right; exact ⟨h, by omega⟩

/-- the same, in the form the driver judges on every loader line: the TTL is allowed at the instant the
provider returned (`ret ≤ now`), hence also at any earlier reading such as the loader's entry -/
theorem loader_run_allowed (notAfter : Int) (r : Run) (h : r.ret ≤ r.now) :
    ttlAllowed (notAfter - r.ret) (loaderRunTTL .cert (some notAfter) r) = true := by
  have e : loaderRunTTL .cert (some notAfter) r = ttlOf (notAfter - r.now) := by
    simp only [loaderRunTTL, Option.map, (loader_ttl (some (notAfter - r.now))).1, computeTTL]
  rw [e]
  exact ttlAllowed_mono (by omega) (ttl_allowed _)

/-- the TTL of a run does not depend on when the loader was entered (`start` only feeds the log line) -/
theorem loader_run_start_irrelevant (p : Provider) (na : Option Int) (s₁ s₂ ret now : Int) :
    loaderRunTTL p na ⟨s₁, ret, now⟩ = loaderRunTTL p na ⟨s₂, ret, now⟩ := rfl

/-- correspondence lemma for the driver: when the harness read the clock at `ret` (inside the provider,
right before it returned) and at `after ≥ now`, the run's TTL is one `ttlReachable` accepts for the bracket
`[NotAfter − after, NotAfter − ret]` -/
theorem loader_run_reachable (notAfter after : Int) (r : Run) (h : r.ret ≤ r.now) (h' : r.now ≤ after) :
    ttlReachable (notAfter - after) (notAfter - r.ret) (loaderRunTTL .cert (some notAfter) r) = true := by
  have e : loaderRunTTL .cert (some notAfter) r = ttlOf (notAfter - r.now) := by
    simp only [loaderRunTTL, Option.map, (loader_ttl (some (notAfter - r.now))).1, computeTTL]
  rw [e, ttlReachable_iff _ _ _ (by omega)]
  exact ⟨notAfter - r.now, by omega, by omega, rfl⟩

/-- `ret ≤ now` is what the property rests on: computing the TTL from a clock reading taken BEFORE a provider
that took `lat > 0` (e.g. re-using `start`) is rejected by `ttlAllowed` whenever more than the 1 s floor but
less than `5 min + lat` of validity-after-skew was left at that stale reading. -/
theorem stale_clock_overstays (notAfter stale ret : Int) (hlat : stale < ret)
    (h1 : second < notAfter - stale - Gen.C30.keylessExpirySkew)
    (h2 : notAfter - ret - Gen.C30.keylessExpirySkew < Gen.C30.keylessPositiveTTL) :
    ttlAllowed (notAfter - ret) (ttlOf (notAfter - stale)) = false := by
  have hps := pos_gt_second
  simp only [ttlAllowed, Bool.and_eq_false_iff, decide_eq_false_iff_not]
  right
  unfold ttlOf second at *
  simp only
  split
  · omega
  · split <;> omega

/-! ### non-vacuity -/

def cfgEx : Cfg := ⟨"hello.com", "acme.example.com"⟩
def alice : Client := ⟨1, "A"⟩
def bob : Client := ⟨2, "B"⟩
def kvEx : State := ⟨fun x => if x = "app.customer.org" then some alice else none, fun _ _ => false⟩
def reqEx (c : Client) : Req := ⟨c, some "app.customer.org", true, false, .cert⟩

example : (getCertificate cfgEx kvEx (fun _ => none) (reqEx alice)).res = none
    ∧ (getCertificate cfgEx kvEx (fun _ => none) (reqEx alice)).called = true := by decide
example : (getCertificate cfgEx kvEx (fun _ => none) (reqEx bob)).res = some .invHost := by decide
example : (getCertificate cfgEx kvEx (fun _ => none) ⟨alice, some "www.customer.org", true, false, .cert⟩).res = some .denied := by decide
example : (sign cfgEx kvEx (fun _ => none) (reqEx alice) 2 48 true true).res = none := by decide
example : (sign cfgEx kvEx (fun _ => none) (reqEx alice) 2 32 true true).res = some .invDigest := by decide
example : (sign cfgEx kvEx (fun _ => none) (reqEx alice) 0 32 true true).res = some .invAlgo := by decide
example : ttlOf (Gen.C30.keylessExpirySkew + 7) = 7 ∧ ttlOf Gen.C30.keylessExpirySkew = second
    ∧ ttlOf (Gen.C30.keylessExpirySkew + 2 * Gen.C30.keylessPositiveTTL) = Gen.C30.keylessPositiveTTL := by decide

/-- a run with a 3 s provider on a certificate with 2 s (after skew) left at entry: 1 s floor, allowed;
with 10 s left and a 1.5 s provider: 8.5 s − ε; the stale-clock TTLs (2 s, 10 s) are both rejected -/
def runEx (lat : Int) : Run := ⟨0, lat, lat + 1000⟩
example : (runEx 3000000000).ordered ∧ loaderRunTTL .cert (some (Gen.C30.keylessExpirySkew + 2 * second)) (runEx 3000000000) = second
    ∧ loaderRunTTL .cert (some (Gen.C30.keylessExpirySkew + 10 * second)) (runEx 1500000000) = 8499999000
    ∧ ttlAllowed (Gen.C30.keylessExpirySkew + 10 * second - 1500000000) 8499999000 = true
    ∧ ttlAllowed (Gen.C30.keylessExpirySkew + 10 * second - 1500000000) (ttlOf (Gen.C30.keylessExpirySkew + 10 * second - 0)) = false
    ∧ ttlAllowed (Gen.C30.keylessExpirySkew + 2 * second - 3000000000) (ttlOf (Gen.C30.keylessExpirySkew + 2 * second - 0)) = false := by
  decide
example : ∃ na stale ret : Int, stale < ret ∧ second < na - stale - Gen.C30.keylessExpirySkew
    ∧ na - ret - Gen.C30.keylessExpirySkew < Gen.C30.keylessPositiveTTL :=
  ⟨Gen.C30.keylessExpirySkew + 2 * second, 0, 3 * second, by decide⟩

end Specter.C30
