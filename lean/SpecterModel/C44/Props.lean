import SpecterModel.C44.Model
/-!
# C44 — After a configuration change, traffic goes to the current target

Primary theorem `forwarding_locked` (the code as it is, after the fix "resolve incoming connections
under the config lock"): for EVERY schedule of rebuilds, reloads, tunnel removals and connections —
connections may arrive at any time, also while a change is in progress, where they wait for
`configMu` — every connection for a non-empty hostname is served with the route configured at the
moment it is resolved, and is not forwarded when the hostname is not (any more) configured.

`sequential_forwarding`, `removed_not_forwarded`, `proxy_matches_router`, `diff_sound` are the
invariant-level statements it rests on. Reloads include REJECTED ones (the file fails
`Config.validate`, or cannot be read): `rejected_reload_noop` (nothing changes) and
`corrected_reload_forwarding` (rejected file, then corrected file: traffic follows the corrected file).

`window_stale` / `c44_witness` are theorems about the PRE-FIX interleaving (resolution without the
lock, between `closeOutdatedProxies` and `buildRouter`): one such connection re-caches a proxy for the
old route, which then serves every later connection. They document why the lock is needed and are the
schedule the harness replays when the fix is reverted.

Hostnames are non-empty: `buildRouter` also stores a tunnel whose hostname is empty and `diffTunnels`
skips those, so the router entry for "" can survive its removal (noted, "" is not a hostname).
-/
namespace Specter.C44

def RouterSub (s : St) : Prop := ∀ h r, h ≠ "" → s.router h = some r → current s h = some r
def RouterExact (s : St) : Prop := ∀ h, h ≠ "" → s.router h = current s h
def ProxySub (s : St) : Prop := ∀ h r, h ≠ "" → s.proxies h = some r → s.router h = some r

/-- no change in progress, the router is exactly the configuration, every cached proxy was built for
the route the router holds -/
structure Quiescent (s : St) : Prop where
  closed : s.window = none
  router : RouterExact s
  proxy : ProxySub s

theorem RouterExact.sub {s : St} (h : RouterExact s) : RouterSub s := fun x r hx hr => by rw [← h x hx]; exact hr

/-- **diff_sound**: `diffTunnels` reports exactly the non-empty hostnames configured before whose
route changed or which are gone. -/
theorem diff_sound (old new : List Tunnel) (h : String) :
    inDiff old new h = true ↔
      h ≠ "" ∧ ∃ o, last old h = some o ∧ (last new h).map (·.route) ≠ some o.route := by
  unfold inDiff
  cases ho : last old h <;> cases hn : last new h <;> simp
  intro _; exact ⟨fun e h' => e h'.symm, fun e h' => e h'.symm⟩

theorem rebuild_eq (s : St) (new : List Tunnel) :
    rebuild s new = { tunnels := new, router := buildRouter (inDiff s.tunnels new) new s.router,
                      proxies := closeOutdated (inDiff s.tunnels new) s.proxies, window := none } := rfl

/-- A complete `RebuildTunnels` from a state whose router and proxy cache are consistent with the
configuration ends quiescent. -/
theorem rebuild_quiescent (s : St) (new : List Tunnel) (hr : RouterSub s) (hp : ProxySub s) :
    Quiescent (rebuild s new) := by
  rw [rebuild_eq]
  refine ⟨rfl, ?_, ?_⟩
  · intro h hne
    simp only [current, buildRouter]
    cases hn : last new h with
    | some t => rfl
    | none =>
      simp only [Option.map_none]
      cases hro : s.router h with
      | none => simp
      | some r =>
        have hc := hr h r hne hro
        simp only [current] at hc
        cases ho : last s.tunnels h with
        | none => simp [ho] at hc
        | some o => simp [inDiff, ho, hn, hne]
  · intro h r hne hpr
    simp only [closeOutdated] at hpr
    split at hpr
    · cases hpr
    · rename_i hd
      have hro := hp h r hne hpr
      have hc := hr h r hne hro
      simp only [current] at hc
      cases ho : last s.tunnels h with
      | none => simp [ho] at hc
      | some o =>
        simp [ho] at hc
        simp only [buildRouter]
        cases hn : last new h with
        | none => simp [inDiff, ho, hn, hne] at hd
        | some n =>
          simp [inDiff, ho, hn, hne] at hd
          simp [← hd, hc]

theorem init_sub (ts : List Tunnel) : RouterSub (init ts) ∧ ProxySub (init ts) :=
  ⟨fun _ _ _ h => by simp [init] at h, fun _ _ _ h => by simp [init] at h⟩

theorem incoming_quiescent (s : St) (h : String) (q : Quiescent s) : Quiescent (incoming s h).1 := by
  unfold incoming
  cases hro : s.router h with
  | none => exact q
  | some u =>
    cases hpr : s.proxies h with
    | some r => exact q
    | none =>
      refine ⟨q.closed, q.router, ?_⟩
      intro x r hx hxr
      simp only at hxr
      split at hxr
      · rename_i e; cases hxr; rw [e]; exact hro
      · exact q.proxy x r hx hxr

theorem filter_eraseFirst_ne (ts : List Tunnel) (h x : String) (hne : x ≠ h) :
    (eraseFirst ts h).filter (·.host = x) = ts.filter (·.host = x) := by
  induction ts with
  | nil => rfl
  | cons t r ih =>
    simp only [eraseFirst]
    split
    · rename_i e
      have : ¬ t.host = x := fun e' => hne (e' ▸ e)
      simp [this]
    · simp [List.filter_cons, ih]

theorem last_eraseFirst_ne (ts : List Tunnel) (h x : String) (hne : x ≠ h) :
    last (eraseFirst ts h) x = last ts x := by
  simp [last, filter_eraseFirst_ne ts h x hne]

theorem unpublish_quiescent (s : St) (h : String) (q : Quiescent s) : Quiescent (unpublish s h) := by
  unfold unpublish
  split
  · refine ⟨q.closed, ?_, ?_⟩
    · intro x hx
      simp only [current, buildRouter]
      cases hl : last (eraseFirst s.tunnels h) x with
      | some t => rfl
      | none =>
        by_cases e : x = h
        · simp [e]
        · have := q.router x hx
          simp only [current, ← last_eraseFirst_ne s.tunnels h x e, hl] at this
          simp [e, this]
    · intro x r hx hxr
      simp only [closeOutdated] at hxr
      split at hxr
      · cases hxr
      · rename_i e
        have e' : x ≠ h := by simpa using e
        have hro := q.proxy x r hx hxr
        have hc := q.router x hx
        rw [hro] at hc
        simp only [current, ← last_eraseFirst_ne s.tunnels h x e'] at hc
        simp only [buildRouter]
        cases hl : last (eraseFirst s.tunnels h) x with
        | none => simp [hl] at hc
        | some t => simp [hl] at hc; simp [hc]
  · exact q

theorem reload_eq (s : St) (next : List Tunnel) (hw : s.window = none) (ha : accepts next = true) :
    reload s next = rebuild (rebuild s next) next := by
  cases s with
  | mk tunnels router proxies window =>
    simp only at hw; subst hw
    simp only [reload, ha, if_true]
    rfl

/-- **rejected_reload_noop.** A reload whose file fails validation (any tunnel with an unparsable /
unsupported target, an unknown header mode, or custom mode without a header host) leaves the
configuration, the router and the proxy cache exactly as they were. -/
theorem rejected_reload_noop (s : St) (next : List Tunnel) (hr : accepts next = false) :
    reload s next = s := by
  simp [reload, hr]

theorem step_quiescent (s : St) (op : Op) (q : Quiescent s) : Quiescent (step s op) := by
  cases op with
  | rebuild n => exact rebuild_quiescent s n q.router.sub q.proxy
  | reload n =>
    simp only [step]
    cases ha : accepts n with
    | true =>
      rw [reload_eq s n q.closed ha]
      have q1 := rebuild_quiescent s n q.router.sub q.proxy
      exact rebuild_quiescent _ n q1.router.sub q1.proxy
    | false => rw [rejected_reload_noop s n ha]; exact q
  | unpublish h => exact unpublish_quiescent s h q
  | incoming h => exact incoming_quiescent s h q
  | reloadUnreadable => exact q

theorem run_quiescent (ops : List Op) : ∀ s, Quiescent s → Quiescent (run s ops) := by
  induction ops with
  | nil => intro s q; exact q
  | cons op r ih => intro s q; exact ih _ (step_quiescent s op q)

/-- In a quiescent state a new connection is served with the currently configured route, and is not
forwarded when the hostname is not configured. -/
theorem quiescent_forwarding (s : St) (q : Quiescent s) (h : String) (hne : h ≠ "") :
    (incoming s h).2 = current s h := by
  have hr := q.router h hne
  unfold incoming
  cases hro : s.router h with
  | none => simp [← hr, hro]
  | some u =>
    cases hpr : s.proxies h with
    | none => simp [← hr, hro]
    | some r =>
      have := q.proxy h r hne hpr
      rw [hro] at this; cases this
      simp [← hr, hro]

/-- **sequential_forwarding.** Start a client on any configuration, let it synchronise once
(`RebuildTunnels`), then run ANY sequence of rebuilds, reloads, tunnel removals and incoming
connections, each to completion (no connection inside a rebuild window): the next connection for any
non-empty hostname is served with that hostname's currently configured target and options; if the
hostname is not configured it is not forwarded. (`forwarding_locked` extends this to connections that
arrive while a change is in progress.) -/
theorem sequential_forwarding (ts first : List Tunnel) (ops : List Op) (h : String) (hne : h ≠ "") :
    (incoming (run (rebuild (init ts) first) ops) h).2 = current (run (rebuild (init ts) first) ops) h :=
  quiescent_forwarding _ (run_quiescent ops _ (rebuild_quiescent _ _ (init_sub ts).1 (init_sub ts).2)) h hne

/-- **removed_not_forwarded.** -/
theorem removed_not_forwarded (ts first : List Tunnel) (ops : List Op) (h : String) (hne : h ≠ "")
    (hrem : last (run (rebuild (init ts) first) ops).tunnels h = none) :
    (incoming (run (rebuild (init ts) first) ops) h).2 = none := by
  rw [sequential_forwarding ts first ops h hne, current, hrem]; rfl

/-- **proxy_matches_router.** In every state reached sequentially, a cached proxy was built for
exactly the route the router holds, which is the configured one. -/
theorem proxy_matches_router (ts first : List Tunnel) (ops : List Op) (h : String) (r : Route) (hne : h ≠ "")
    (hp : (run (rebuild (init ts) first) ops).proxies h = some r) :
    (run (rebuild (init ts) first) ops).router h = some r ∧ current (run (rebuild (init ts) first) ops) h = some r := by
  have q := run_quiescent ops _ (rebuild_quiescent _ first (init_sub ts).1 (init_sub ts).2)
  have := q.proxy h r hne hp
  exact ⟨this, by rw [← q.router h hne]; exact this⟩

theorem run_append (s : St) (a b : List Op) : run s (a ++ b) = run (run s a) b := by
  simp [run, List.foldl_append]

theorem reload_tunnels (s : St) (next : List Tunnel) (ha : accepts next = true) :
    (reload s next).tunnels = next := by
  simp only [reload, ha, if_true]; rfl

/-- **corrected_reload_forwarding.** After ANY history, a reload that is rejected by validation
(`bad`, which may at the same time retarget or drop hostnames) followed by a reload of an accepted
file `good`: the next connection for any non-empty hostname is served exactly as `good` says — with
`good`'s route for that hostname, and not forwarded when `good` does not list it. The rejected file
leaves no trace (in particular it does not become the "previous" list the next diff is taken against). -/
theorem corrected_reload_forwarding (ts first : List Tunnel) (ops : List Op) (bad good : List Tunnel)
    (h : String) (hne : h ≠ "") (hb : accepts bad = false) (hg : accepts good = true) :
    (incoming (run (rebuild (init ts) first) (ops ++ [.reload bad, .reload good])) h).2
      = (last good h).map (·.route) := by
  rw [sequential_forwarding ts first _ h hne, run_append]
  simp only [run, List.foldl, step, current]
  rw [rejected_reload_noop _ bad hb, reload_tunnels _ good hg]

theorem serveAll_spec (hs : List String) : ∀ s, Quiescent s →
    Quiescent (serveAll s hs).1 ∧ ∀ x ∈ (serveAll s hs).2, x.h ≠ "" → x.route = x.want := by
  induction hs with
  | nil => intro s q; exact ⟨q, by simp [serveAll]⟩
  | cons h hs ih =>
    intro s q
    have := ih (incoming s h).1 (incoming_quiescent s h q)
    refine ⟨this.1, ?_⟩
    intro x hx
    simp only [serveAll, List.mem_cons] at hx
    rcases hx with rfl | hx
    · intro hne; exact quiescent_forwarding s q _ hne
    · exact this.2 x hx

theorem stepLocked_spec (s : St) (e : Ev) (q : Quiescent s) :
    Quiescent (stepLocked s e).1 ∧ ∀ x ∈ (stepLocked s e).2, x.h ≠ "" → x.route = x.want := by
  cases e with
  | rebuild new d => exact serveAll_spec d _ (rebuild_quiescent s new q.router.sub q.proxy)
  | reload next d1 d2 =>
    cases ha : accepts next with
    | false => simp only [stepLocked, ha]; exact serveAll_spec (d1 ++ d2) s q
    | true =>
      have a := serveAll_spec d1 _ (rebuild_quiescent s next q.router.sub q.proxy)
      have b := serveAll_spec d2 _ (rebuild_quiescent _ next a.1.router.sub a.1.proxy)
      refine ⟨by simp only [stepLocked, ha]; exact b.1, ?_⟩
      intro x hx
      simp only [stepLocked, ha, if_true, List.mem_append] at hx
      rcases hx with hx | hx
      · exact a.2 x hx
      · exact b.2 x hx
  | unpublish h d => exact serveAll_spec d _ (unpublish_quiescent s h q)
  | arrive h => exact serveAll_spec [h] s q

theorem runLocked_spec (es : List Ev) : ∀ s, Quiescent s →
    Quiescent (runLocked s es).1 ∧ ∀ x ∈ (runLocked s es).2, x.h ≠ "" → x.route = x.want := by
  induction es with
  | nil => intro s q; exact ⟨q, by simp [runLocked]⟩
  | cons e es ih =>
    intro s q
    have a := stepLocked_spec s e q
    have b := ih _ a.1
    refine ⟨b.1, ?_⟩
    intro x hx
    simp only [runLocked, List.mem_append] at hx
    rcases hx with hx | hx
    · exact a.2 x hx
    · exact b.2 x hx

/-- **forwarding_locked** (primary). Start a client on any configuration, let it synchronise once,
then run ANY schedule: configuration changes (rebuild, reload, tunnel removal) each with any
connections arriving while the change is in progress, and connections arriving in between. Every
connection for a non-empty hostname is served with the route configured for that hostname at the
moment it is resolved (`want`; `none` = not configured = not forwarded), and the client ends with
router = configuration and every cached proxy built for the configured route. -/
theorem forwarding_locked (ts first : List Tunnel) (evs : List Ev) :
    Quiescent (runLocked (rebuild (init ts) first) evs).1 ∧
    ∀ x ∈ (runLocked (rebuild (init ts) first) evs).2, x.h ≠ "" → x.route = x.want :=
  runLocked_spec evs _ (rebuild_quiescent _ _ (init_sub ts).1 (init_sub ts).2)

/-- **window_stale** (PRE-FIX interleaving; why the lock is needed): from any quiescent state in which `h` is routed
to `a`, a rebuild that changes `h`'s route to `b ≠ a`, with ONE connection for `h` arriving between
`closeOutdatedProxies` and `buildRouter`, ends in a state (no change in progress) where new
connections for `h` are still served with the old route `a`. -/
theorem window_stale (s : St) (q : Quiescent s) (h : String) (hne : h ≠ "") (a : Route) (new : List Tunnel)
    (tb : Tunnel) (ha : s.router h = some a) (hb : last new h = some tb) (hab : tb.route ≠ a) :
    let s' := wEnd (incoming (wBegin s new) h).1
    s'.window = none ∧ (incoming s' h).2 = some a ∧ current s' h = some tb.route ∧ current s' h ≠ some a := by
  have hc : current s h = some a := by rw [← q.router h hne]; exact ha
  simp only [current] at hc
  cases ho : last s.tunnels h with
  | none => simp [ho] at hc
  | some o =>
    simp [ho] at hc
    have hd : inDiff s.tunnels new h = true := by
      simp [inDiff, ho, hb, hne, hc]; exact fun e => hab e.symm
    simp [wBegin, incoming, ha, closeOutdated, hd, wEnd, buildRouter, hb, current, hab]

/-! ## non-vacuity / witness -/

def rA : Route := ⟨"b0", false, 0, "", ""⟩
def rB : Route := ⟨"b1", false, 0, "", ""⟩

/-- **c44_witness**: rebuild [h→b0]; connection; rebuild [h→b1] with one connection inside the
window; afterwards a connection for h is served by the proxy for b0 although b1 is configured. -/
theorem c44_witness :
    let s0 := rebuild (init []) [⟨"h", rA⟩]
    let s1 := (incoming s0 "h").1
    let s2 := wBegin s1 [⟨"h", rB⟩]
    let s3 := (incoming s2 "h").1
    let s4 := wEnd s3
    (incoming s4 "h").2 = some rA ∧ current s4 "h" = some rB ∧ s4.window = none := by
  decide

/-- the same schedule under the locked semantics: the in-window connection waits and is served with b1 -/
example :
    (runLocked (rebuild (init []) [⟨"h", rA⟩]) [.arrive "h", .rebuild [⟨"h", rB⟩] ["h"], .arrive "h"]).2.map
      (fun x => (x.route, x.want)) = [(some rA, some rA), (some rB, some rB), (some rB, some rB)] := by
  decide

/-- the sequential theorem on a non-trivial instance: route change, removal, re-adding -/
example :
    let s := run (rebuild (init []) [⟨"h", rA⟩, ⟨"g", rA⟩])
      [.incoming "h", .incoming "g", .rebuild [⟨"h", rB⟩], .incoming "h", .reload [⟨"h", rB⟩, ⟨"g", rB⟩]]
    (incoming s "h").2 = some rB ∧ (incoming s "g").2 = some rB ∧ (incoming s "zz").2 = none := by
  decide

def rBad : Route := ⟨"!scheme", false, 0, "", ""⟩

example : accepts [⟨"h", rB⟩, ⟨"c", rBad⟩] = false ∧ accepts [⟨"h", rB⟩] = true ∧
    accepts [⟨"h", ⟨"b0", false, 0, "", "custom"⟩⟩] = false ∧ accepts [⟨"h", ⟨"b0", false, 0, "", "bogus"⟩⟩] = false ∧
    accepts [⟨"h", ⟨"b0", false, 0, "x", "custom"⟩⟩] = true := by decide

/-- rejected_reload_noop / corrected_reload_forwarding on the operator's story: h→b0 and g→b0 served;
the edited file retargets h, drops g and has a typo in a third tunnel (rejected: h and g still served
as before); the typo is fixed: h goes to b1, g is no longer forwarded. -/
example :
    let s1 := run (rebuild (init []) [⟨"h", rA⟩, ⟨"g", rA⟩]) [.incoming "h", .incoming "g", .reload [⟨"h", rB⟩, ⟨"c", rBad⟩]]
    let s2 := run s1 [.incoming "h", .reload [⟨"h", rB⟩]]
    (incoming s1 "h").2 = some rA ∧ (incoming s1 "g").2 = some rA ∧ current s1 "h" = some rA ∧
    (incoming s2 "h").2 = some rB ∧ (incoming s2 "g").2 = none := by
  decide

example : inDiff [⟨"h", rA⟩, ⟨"g", rA⟩] [⟨"h", rB⟩] "h" = true ∧ inDiff [⟨"h", rA⟩, ⟨"g", rA⟩] [⟨"h", rB⟩] "g" = true ∧
    inDiff [⟨"h", rA⟩] [⟨"h", rA⟩, ⟨"n", rB⟩] "n" = false := by decide

end Specter.C44
