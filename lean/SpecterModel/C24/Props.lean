import SpecterModel.C24.Model
import SpecterModel.C24.Gen
/-!
# C24 — Opening an existing SQLite database never damages its data

Theorems about `openDb Gen.facts` (the model of `sqlite3.New` = `migrate` + `prepareStatements`,
instantiated with the facts regenerated from the source on every run) over **every** database:
any `user_version : Int` (SQLite's is a signed 32-bit value, so negative ones exist too), any of the
2^5 present/absent combinations of the v1 objects, any rows of any type.
-/
namespace Specter.C24
open Gen

variable {ρ : Type}

/-- all four tables exist -/
def tablesPresent (db : Db ρ) : Prop := ∀ o ∈ Obj.tables, present db o = true
/-- the complete v1 schema (tables and index) exists -/
def complete (db : Db ρ) : Prop := ∀ o ∈ Obj.all, present db o = true
/-- every row of every object that existed is still there, in the same object -/
def rowsKept (db db' : Db ρ) : Prop := ∀ o rows, db.tab o = some rows → db'.tab o = some rows

theorem latest_facts : latest facts = 1 := by decide
theorem schemaVersion_is_latest : facts.schemaVersion = latest facts := by decide

theorem migrate_current (db : Db ρ) (h : db.uv = 1) : migrate facts db = (.ok, db) := by
  simp [migrate, latest_facts, h]
theorem migrate_newer (db : Db ρ) (h : 1 < db.uv) : migrate facts db = (.refuse, db) := by
  have : db.uv ≠ 1 := by omega
  simp [migrate, latest_facts, this, h]

/-- the migration loop when the local `uv` is below every migration version (here: `uv < 1`) -/
theorem run_below (uv : Int) (h : uv < 1) (db : Db ρ) :
    runMigrations uv facts.migrations db = runMigrations 0 facts.migrations db := by
  have h4 : ¬ (1:Int) ≤ uv := by omega
  simp [facts, runMigrations, h4]

theorem migrate_zero (db : Db ρ) (h : db.uv = 0) : migrate facts db =
    if looksLikeV1 facts db then (.ok, { db with uv := 1 })
    else if hasAnyV1 facts db then (.refuse, db) else runMigrations 0 facts.migrations db := by
  unfold migrate
  rw [latest_facts, if_neg (by omega), if_neg (by omega), if_pos h]
  split
  · simp [facts, runMigrations]
  · rfl
theorem migrate_neg (db : Db ρ) (h : db.uv < 0) : migrate facts db = runMigrations 0 facts.migrations db := by
  unfold migrate
  rw [latest_facts, if_neg (by omega), if_neg (by omega), if_neg (by omega)]
  exact run_below _ (by omega) _

macro "c24_split" db:ident : tactic => `(tactic| (
  rcases hk : Db.tab $db .keyTrackers with _ | rk <;>
  rcases hs : Db.tab $db .simpleEntries with _ | rs <;>
  rcases hp : Db.tab $db .prefixEntries with _ | rp <;>
  rcases hl : Db.tab $db .leaseEntries with _ | rl <;>
  rcases hx : Db.tab $db .idxHash with _ | rx))

macro "c24_simp" : tactic => `(tactic|
  simp [*, openDb, prepare, runMigrations, applyMigration, createAll, create, looksLikeV1, hasAnyV1,
    present, upd, facts, tablesPresent, complete, rowsKept, Obj.tables, Obj.all])

/-- The decision table: `New` succeeds exactly for `user_version = current` with the four tables,
`user_version = 0` with all five objects (legacy) or none of them (fresh), and negative
`user_version` (the migration is applied with IF NOT EXISTS on whatever is there). -/
theorem open_outcome_table (db : Db ρ) :
    (openDb facts db).1 = .ok ↔
      (db.uv = 1 ∧ tablesPresent db) ∨ (db.uv = 0 ∧ (complete db ∨ ∀ o ∈ Obj.all, present db o = false)) ∨ db.uv < 0 := by
  by_cases h1 : db.uv = 1
  · have hm := migrate_current db h1
    unfold openDb; rw [hm]
    c24_split db <;> c24_simp
  · by_cases h2 : db.uv > 1
    · have hm := migrate_newer db h2
      have : ¬ db.uv = 0 := by omega
      have : ¬ db.uv < 0 := by omega
      unfold openDb; rw [hm]
      c24_simp
    · by_cases h0 : db.uv = 0
      · have hm := migrate_zero db h0
        unfold openDb; rw [hm]
        c24_split db <;> c24_simp
      · have hn : db.uv < 0 := by omega
        have hm := migrate_neg db hn
        unfold openDb; rw [hm]
        c24_split db <;> c24_simp

/-- what the property demands of the result `r` of opening `db` -/
def Safe (db : Db ρ) (r : Outcome × Db ρ) : Prop :=
  (r.1 = .ok → r.2.uv = facts.schemaVersion ∧ tablesPresent r.2 ∧ rowsKept db r.2 ∧ (complete r.2 ∨ db.uv = latest facts)
      ∧ db.uv ≤ r.2.uv) ∧
  (r.1 = .refuse → r.2 = db)

/-- C24 over every database (any `user_version : Int`, any of the 2^5 object subsets, any rows): a
successful open ends at the current version, all tables present, every pre-existing row in place, and
the schema complete unless the file was already stamped current, and the version stamp never lowered
(so a file from a newer version is never opened); a refused open changes nothing. -/
theorem open_safe (db : Db ρ) : Safe db (openDb facts db) := by
  unfold Safe; rw [latest_facts]
  by_cases h1 : db.uv = 1
  · have hm := migrate_current db h1
    unfold openDb; rw [hm]
    c24_split db <;> c24_simp
  · by_cases h2 : db.uv > 1
    · have hm := migrate_newer db h2
      unfold openDb; rw [hm]
      c24_simp
    · by_cases h0 : db.uv = 0
      · have hm := migrate_zero db h0
        unfold openDb; rw [hm]
        c24_split db <;> c24_simp <;> (try (intro o; cases o <;> simp [*]))
      · have hn : db.uv < 0 := by omega
        have hm := migrate_neg db hn
        unfold openDb; rw [hm]
        c24_split db <;> c24_simp <;> (try refine ⟨?_, by omega⟩) <;> (try omega) <;>
          (try (intro o; cases o <;> simp [*]))

/-- A refused open leaves the database exactly as it was (version, schema, rows). In particular the
legacy stamp (`user_version := 1`, written outside a transaction) is never followed by a refusal. -/
theorem open_refuse_unchanged (db : Db ρ) (h : (openDb facts db).1 = .refuse) : (openDb facts db).2 = db :=
  (open_safe db).2 h

/-- A successful open ends at the current version with all four tables usable and every existing row
still in place. -/
theorem open_ok_preserves (db : Db ρ) (h : (openDb facts db).1 = .ok) :
    (openDb facts db).2.uv = facts.schemaVersion ∧ tablesPresent (openDb facts db).2 ∧
      rowsKept db (openDb facts db).2 :=
  let ⟨a, b, c, _⟩ := (open_safe db).1 h; ⟨a, b, c⟩

/-- A database from a newer version (`user_version` above the latest embedded migration) is refused and
left exactly as it was, whatever objects and rows it contains — in particular when it carries the
complete v1 schema and so *looks like* a legacy database to `schemaLooksLikeV1`. -/
theorem open_newer_refused (db : Db ρ) (h : latest facts < db.uv) : openDb facts db = (.refuse, db) := by
  rw [latest_facts] at h
  unfold openDb; rw [migrate_newer db h]

/-- A successful open never lowers `user_version`: the stamp only moves forward, by migrations. -/
theorem open_never_downgrades (db : Db ρ) (h : (openDb facts db).1 = .ok) : db.uv ≤ (openDb facts db).2.uv :=
  let ⟨_, _, _, _, e⟩ := (open_safe db).1 h; e

/-- FULL statement (DESIGN `open_safe`): `ok → complete ∧ uv = current ∧ rows kept; refuse → unchanged`
for every database.  It is FALSE of the code for exactly one family (`open_ok_incomplete_witness`): a
database already stamped `user_version = 1` whose `idx_hash` is missing is opened as-is (`migrate`
returns early, `prepareStatements` does not need the index).  Proved here: the full statement for
every database that is not already stamped current. -/
theorem open_schema_complete_partial (db : Db ρ) (hne : db.uv ≠ latest facts) :
    ((openDb facts db).1 = .ok →
        complete (openDb facts db).2 ∧ (openDb facts db).2.uv = facts.schemaVersion ∧ rowsKept db (openDb facts db).2) ∧
    ((openDb facts db).1 = .refuse → (openDb facts db).2 = db) := by
  refine ⟨fun h => ?_, open_refuse_unchanged db⟩
  obtain ⟨a, _, c, d, _⟩ := (open_safe db).1 h
  exact ⟨d.resolve_right hne, a, c⟩

/-- The exception is real: stamped-current database, four tables, no index → opened, index still missing. -/
def staleIndexDb : Db Nat :=
  { uv := 1, tab := fun o => match o with | .idxHash => none | .simpleEntries => some [7, 8] | _ => some [] }

theorem open_ok_incomplete_witness :
    (openDb facts staleIndexDb).1 = .ok ∧ present (openDb facts staleIndexDb).2 .idxHash = false := by decide

/-! ### non-vacuity: each branch of the table is inhabited -/
def freshDb : Db Nat := { uv := 0, tab := fun _ => none }
def legacyDb : Db Nat := { uv := 0, tab := fun o => match o with | .simpleEntries => some [1, 2, 3] | _ => some [] }
def partialDb : Db Nat := { uv := 0, tab := fun o => match o with | .simpleEntries => some [1] | _ => none }
def stampedMissingTable : Db Nat := { uv := 1, tab := fun o => match o with | .leaseEntries => none | _ => some [5] }
def newerDb : Db Nat := { uv := 2, tab := fun _ => some [] }
/-- a newer-version file as it really looks: complete v1 schema, rows -/
def newerFullDb : Db Nat := { uv := 2, tab := fun o => match o with | .idxHash => some [] | _ => some [4, 5] }

example : (openDb facts freshDb).1 = .ok ∧ (openDb facts freshDb).2.uv = 1 ∧
    (Obj.all.all (present (openDb facts freshDb).2)) = true := by decide
example : (openDb facts legacyDb).1 = .ok ∧ (openDb facts legacyDb).2.uv = 1 ∧
    (openDb facts legacyDb).2.tab .simpleEntries = some [1, 2, 3] := by decide
example : (openDb facts partialDb).1 = .refuse := by decide
example : (openDb facts stampedMissingTable).1 = .refuse := by decide
example : (openDb facts newerDb).1 = .refuse := by decide
example : legacyDb.uv ≠ latest facts := by decide
example : latest facts < newerFullDb.uv ∧ looksLikeV1 facts newerFullDb = true := by decide
example : (openDb facts newerFullDb).1 = .refuse ∧ (openDb facts newerFullDb).2.uv = 2 := by decide
example : (openDb facts legacyDb).1 = .ok ∧ legacyDb.uv < (openDb facts legacyDb).2.uv := by decide

end Specter.C24
