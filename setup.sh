#!/bin/sh
# Build the framework offline from files on disk: extractor, Lean project (+ compiled driver),
# and warm the Go build cache for every harness binary.
set -e
cd "$(dirname "$0")"
export GOFLAGS=-mod=mod GOPROXY=off
unset GOTOOLCHAIN GOSUMDB || true
mkdir -p build/wazero evidence replays
(cd extract && go build -o ../build/extract .)
python3 lean/genmain.py
(cd lean && lake build 2>&1 | grep -v '^trace' | tail -5; for f in Driver/C*.lean; do t=modeld_$(basename $f .lean); lake build $t 2>&1 | grep -v '^trace' | tail -1; done)
S=$(mktemp -d /tmp/verif-setup-XXXXXX)
python3 - "$S" <<'PY'
import sys, importlib.machinery, importlib.util
l = importlib.machinery.SourceFileLoader("check", "check")
spec = importlib.util.spec_from_loader("check", l); m = importlib.util.module_from_spec(spec); l.exec_module(m)
m.make_overlay(sys.argv[1])
PY
cp /repo/go.sum harness/go.sum 2>/dev/null || true
(cd harness && go build -tags verif -overlay "$S/overlay.json" -o "$S/bin/" ./cmd/... ) || echo "warning: some harness binaries do not build"
rm -rf "$S"
echo setup done
