import SpecterModel.C18.Model
/-!
# C18 / C04 — the linearizability checker is sound and complete

`linearizable_iff`: for every recorded history (any number of calls, any invocation / response numbers, any
transition tests) the executable check `linearizable evs init` returns `true` exactly when the history is
`Linearizable`: some permutation of all calls is a legal sequential execution from `init` in which no call is
placed before a call that had already returned when it was invoked. So a "not linearizable" verdict of the
drivers of C18 and C04 is never a false alarm of the search (completeness), and an accepted history really has
a linearization (soundness). The memo is handled by the invariant `MemoOK`: it only ever holds configurations
that have no linearization.
-/
namespace Specter.C18.Lin

variable {inv ret : Nat → Nat} {app : Nat → String → Option String}

/-- sequential run of an order -/
def run (app : Nat → String → Option String) : List Nat → String → Option String
  | [], st => some st
  | i :: rest, st => match app i st with
    | none => none
    | some st' => run app rest st'

/-- readable form of `Valid`: pairwise real-time condition + the sequential run succeeds -/
theorem valid_iff (order : List Nat) (st : String) :
    Valid inv ret app order st ↔
      order.Pairwise (fun a b => ¬ ret b < inv a) ∧ (run app order st).isSome = true := by
  induction order generalizing st with
  | nil => simp [Valid, run]
  | cons i rest ih =>
    simp only [Valid, List.pairwise_cons, run]
    constructor
    · rintro ⟨h1, st', h2, h3⟩
      rw [h2]
      exact ⟨⟨h1, ((ih st').mp h3).1⟩, ((ih st').mp h3).2⟩
    · rintro ⟨⟨h1, h2⟩, h3⟩
      cases h : app i st with
      | none => rw [h] at h3; simp at h3
      | some st' =>
        rw [h] at h3
        exact ⟨h1, st', rfl, (ih st').mpr ⟨h2, h3⟩⟩

theorem lin_nil (st : String) : Lin inv ret app [] st := ⟨[], List.Perm.refl _, trivial⟩

theorem minimal_iff (rem : List Nat) (i : Nat) :
    minimal inv ret rem i = true ↔ ∀ j ∈ rem.erase i, ¬ ret j < inv i := by
  simp [minimal, List.all_eq_true]

/-- one unfolding of the specification: the first call of a linearization is a minimal remaining call -/
theorem lin_iff (rem : List Nat) (st : String) :
    Lin inv ret app rem st ↔
      rem = [] ∨ ∃ i ∈ rem, minimal inv ret rem i = true ∧ ∃ st', app i st = some st' ∧
        Lin inv ret app (rem.erase i) st' := by
  constructor
  · rintro ⟨order, hp, hv⟩
    cases order with
    | nil => left; exact List.nil_perm.mp hp
    | cons i rest =>
      right
      obtain ⟨hi, hpr⟩ := List.cons_perm_iff_perm_erase.mp hp
      obtain ⟨h1, st', h2, h3⟩ := hv
      refine ⟨i, hi, ?_, st', h2, rest, hpr, h3⟩
      rw [minimal_iff]
      intro j hj
      exact h1 j (hpr.mem_iff.mpr hj)
  · rintro (h | ⟨i, hi, hmin, st', h2, order, hpr, hv⟩)
    · subst h; exact lin_nil st
    · refine ⟨i :: order, List.cons_perm_iff_perm_erase.mpr ⟨hi, hpr⟩, ?_, st', h2, hv⟩
      intro j hj
      exact (minimal_iff rem i).mp hmin j (hpr.mem_iff.mp hj)

/-- the memo only holds configurations without a linearization -/
def MemoOK (inv ret : Nat → Nat) (app : Nat → String → Option String) (m : Memo) : Prop :=
  ∀ rem st, m.contains (rem, st) = true → ¬ Lin inv ret app rem st

theorem memoOK_empty : MemoOK inv ret app ({} : Memo) := by
  intro rem st h; simp at h

/-- what a correct recursive call looks like -/
def RecOK (inv ret : Nat → Nat) (app : Nat → String → Option String) (f : Nat)
    (rec : List Nat → String → Memo → Bool × Memo) : Prop :=
  ∀ rem st m, rem.length ≤ f → MemoOK inv ret app m →
    MemoOK inv ret app (rec rem st m).2 ∧ ((rec rem st m).1 = true ↔ Lin inv ret app rem st)

theorem attempt_spec {f : Nat} {rec : List Nat → String → Memo → Bool × Memo} (hrec : RecOK inv ret app f rec)
    (rem : List Nat) (st : String) (hlen : rem.length ≤ f + 1) (cs : List Nat) (hcs : ∀ i ∈ cs, i ∈ rem)
    (m : Memo) (hm : MemoOK inv ret app m) :
    MemoOK inv ret app (attempt inv ret app rec rem st cs m).2 ∧
    ((attempt inv ret app rec rem st cs m).1 = true ↔
      ∃ i ∈ cs, minimal inv ret rem i = true ∧ ∃ st', app i st = some st' ∧ Lin inv ret app (rem.erase i) st') := by
  induction cs generalizing m with
  | nil => simp [attempt, hm]
  | cons i cs ih =>
    have hi : i ∈ rem := hcs i (List.mem_cons_self)
    have hcs' : ∀ j ∈ cs, j ∈ rem := fun j hj => hcs j (List.mem_cons_of_mem _ hj)
    have hlen' : (rem.erase i).length ≤ f := by
      rw [List.length_erase_of_mem hi]; omega
    unfold attempt
    by_cases hmin : minimal inv ret rem i = true
    · simp only [hmin, if_true]
      cases happ : app i st with
      | none =>
        simp only []
        obtain ⟨a, b⟩ := ih hcs' m hm
        refine ⟨a, b.trans ?_⟩
        constructor
        · rintro ⟨k, hk, r⟩; exact ⟨k, List.mem_cons_of_mem _ hk, r⟩
        · rintro ⟨k, hk, hkmin, st', hka, hl⟩
          rcases List.mem_cons.mp hk with rfl | hk
          · rw [happ] at hka; cases hka
          · exact ⟨k, hk, hkmin, st', hka, hl⟩
      | some st' =>
        simp only []
        obtain ⟨rm, rb⟩ := hrec (rem.erase i) st' m hlen' hm
        by_cases hr : (rec (rem.erase i) st' m).1 = true
        · simp only [hr, if_true]
          exact ⟨rm, iff_of_true (by simp) ⟨i, List.mem_cons_self, hmin, st', happ, rb.mp hr⟩⟩
        · simp only [hr]
          obtain ⟨a, b⟩ := ih hcs' _ rm
          refine ⟨a, b.trans ?_⟩
          constructor
          · rintro ⟨k, hk, r⟩; exact ⟨k, List.mem_cons_of_mem _ hk, r⟩
          · rintro ⟨k, hk, hkmin, st'', hka, hl⟩
            rcases List.mem_cons.mp hk with rfl | hk
            · rw [happ] at hka; cases hka
              exact absurd (rb.mpr hl) hr
            · exact ⟨k, hk, hkmin, st'', hka, hl⟩
    · simp only [hmin]
      obtain ⟨a, b⟩ := ih hcs' m hm
      refine ⟨a, b.trans ?_⟩
      constructor
      · rintro ⟨k, hk, r⟩; exact ⟨k, List.mem_cons_of_mem _ hk, r⟩
      · rintro ⟨k, hk, hkmin, r⟩
        rcases List.mem_cons.mp hk with rfl | hk
        · exact absurd hkmin hmin
        · exact ⟨k, hk, hkmin, r⟩

theorem search_spec (f : Nat) : RecOK inv ret app f (search inv ret app f) := by
  induction f with
  | zero =>
    intro rem st m hlen hm
    have : rem = [] := List.eq_nil_of_length_eq_zero (by omega)
    subst this
    simp [search, hm, lin_nil]
  | succ f ih =>
    intro rem st m hlen hm
    unfold search
    by_cases he : rem.isEmpty = true
    · have : rem = [] := List.isEmpty_iff.mp he
      subst this
      simp [hm, lin_nil]
    · simp only [he, Bool.false_eq_true, ↓reduceIte]
      have hne : rem ≠ [] := fun h => he (by simp [h])
      by_cases hc : m.contains (rem, st) = true
      · simp only [hc, if_true]
        exact ⟨hm, iff_of_false (by simp) (hm rem st hc)⟩
      · simp only [hc, Bool.false_eq_true, ↓reduceIte]
        obtain ⟨am, ab⟩ := attempt_spec ih rem st hlen rem (fun _ h => h) m hm
        by_cases hr : (attempt inv ret app (search inv ret app f) rem st rem m).1 = true
        · simp only [hr, if_true]
          exact ⟨am, iff_of_true (by simp) ((lin_iff rem st).mpr (Or.inr (ab.mp hr)))⟩
        · simp only [hr, Bool.false_eq_true, ↓reduceIte]
          have hnl : ¬ Lin inv ret app rem st := by
            intro hl
            rcases (lin_iff rem st).mp hl with h | h
            · exact hne h
            · exact hr (ab.mpr h)
          refine ⟨?_, iff_of_false (by simp) hnl⟩
          intro rem' st' hcon
          rw [Std.HashSet.contains_insert] at hcon
          rcases Bool.or_eq_true _ _ ▸ hcon with h | h
          · have : (rem, st) = (rem', st') := by simpa using h
            cases this; exact hnl
          · exact am rem' st' h

end Specter.C18.Lin

namespace Specter.C18

/-- C18/C04 `linearizable_iff`: the executable check decides exactly the specification, for every history. -/
theorem linearizable_iff (evs : Array Ev) (init : String) :
    linearizable evs init = true ↔ Linearizable evs init := by
  unfold linearizable Linearizable
  exact (Lin.search_spec evs.size (List.range evs.size) init {} (by simp) Lin.memoOK_empty).2

/-- a "not linearizable" verdict is never an artefact of the search -/
theorem not_linearizable_sound (evs : Array Ev) (init : String) (h : linearizable evs init = false) :
    ¬ Linearizable evs init := by
  intro hl; rw [(linearizable_iff evs init).mpr hl] at h; cases h

/-- an accepted history comes with an order that is a permutation of all calls, respects real time pairwise
and runs through the sequential specification -/
theorem linearizable_witness (evs : Array Ev) (init : String) (h : linearizable evs init = true) :
    ∃ order : List Nat, order.Perm (List.range evs.size) ∧
      order.Pairwise (fun a b => ¬ (evs[b]!).ret < (evs[a]!).inv) ∧
      (Lin.run (fun i => (evs[i]!).apply) order init).isSome = true := by
  obtain ⟨order, hp, hv⟩ := (linearizable_iff evs init).mp h
  exact ⟨order, hp, (Lin.valid_iff order init).mp hv⟩

/-- C04/C18 `linearizable_of_points`: a history whose calls each take effect atomically at some instant inside
their invocation / response bracket (the shape of every history produced by a system whose operations are single
atomic steps, e.g. `C04.kvAt_atomic` under a lock or a successful CAS of `C18.Simple`) is `Linearizable`, and the
executable check accepts it: order the calls by their instants `p`. -/
theorem linearizable_of_points (evs : Array Ev) (init : String) (order : List Nat)
    (hperm : order.Perm (List.range evs.size)) (p : Nat → Nat)
    (hin : ∀ i ∈ order, (evs[i]!).inv ≤ p i ∧ p i ≤ (evs[i]!).ret)
    (hsorted : order.Pairwise (fun a b => p a < p b))
    (hrun : (Lin.run (fun i => (evs[i]!).apply) order init).isSome = true) :
    Linearizable evs init ∧ linearizable evs init = true := by
  have hl : Linearizable evs init := by
    refine ⟨order, hperm, (Lin.valid_iff order init).mpr ⟨?_, hrun⟩⟩
    refine hsorted.imp_of_mem ?_
    intro a b ha hb hab
    have h1 := (hin a ha).1
    have h2 := (hin b hb).2
    omega
  exact ⟨hl, (linearizable_iff evs init).mpr hl⟩

/-! non-vacuity: a register history `put a` (1..2), `get -> a` (3..4) is accepted; with `get -> ""` it is refused -/
def putA : String → Option String := fun _ => some "a"
def getIs (v : String) : String → Option String := fun st => if st = v then some st else none

example : Linearizable #[⟨1, 2, putA, ""⟩, ⟨3, 4, getIs "a", ""⟩] "" :=
  ⟨[0, 1], List.Perm.refl _, by simp [Lin.Valid, putA, getIs]⟩

example : ¬ Linearizable #[⟨1, 2, putA, ""⟩, ⟨3, 4, getIs "", ""⟩] "" := by
  rintro ⟨order, hp, hv⟩
  have hlen := hp.length_eq
  match order, hlen with
  | [a, b], _ =>
    have ha : a ∈ [0, 1] := hp.mem_iff.mp (by simp)
    have hb : b ∈ [0, 1] := hp.mem_iff.mp (by simp)
    have hnd : [a, b].Nodup := hp.nodup_iff.mpr (by decide)
    simp only [List.mem_cons, List.not_mem_nil, or_false] at ha hb
    rcases ha with rfl | rfl <;> rcases hb with rfl | rfl
    · simp at hnd
    · simp [Lin.Valid, putA, getIs] at hv
    · simp [Lin.Valid] at hv
    · simp at hnd

end Specter.C18
