import SpecterModel.C40.Model
/-!
# C40 — bidirectional piping delivers all data and closes both ends

Part 1: one copier (`io.CopyBuffer` loop as coded) over ARBITRARY reader / writer scripts.
Part 2: `Pipe` = two copiers + wait group + buffered error channel, ALL interleavings, arbitrary copy outcomes.
-/
namespace Specter.C40

/-! ## Part 1: the copier -/

def nonEmpty (d : List Nat) : Bool := !d.isEmpty

theorem copyLoop_calls (rs : List ReadRes) : ∀ (ws : List WriteRes) (calls taken : List (List Nat)) (wr : Int),
    calls = taken.filter nonEmpty →
    (copyLoop rs ws calls taken wr).calls = (copyLoop rs ws calls taken wr).taken.filter nonEmpty := by
  induction rs with
  | nil => intro ws calls taken wr h; simp [copyLoop, h, nonEmpty, List.filter_reverse]
  | cons r rs ih =>
    intro ws calls taken wr h
    rw [copyLoop]
    by_cases c : r.data ≠ []
    · have hn : nonEmpty r.data = true := by simp [nonEmpty]; exact c
      have h' : r.data :: calls = (r.data :: taken).filter nonEmpty := by simp [List.filter, hn, h]
      simp only [c, if_true, ne_eq, not_false_eq_true]
      split
      · simp [List.filter_reverse, h, hn]
      · split
        · simp [List.filter_reverse, h, hn]
        · split
          · exact ih _ _ _ _ h'
          · simp [List.filter_reverse, h, hn]
          · simp [List.filter_reverse, h, hn]
    · have c' : r.data = [] := by simpa using c
      have hn : nonEmpty r.data = false := by simp [nonEmpty, c']
      have h' : calls = (r.data :: taken).filter nonEmpty := by simp [List.filter, hn, h]
      simp only [c', ne_eq, not_true_eq_false, if_false]
      split
      · rw [← c']; exact ih _ _ _ _ h'
      · simp [List.filter_reverse, h, nonEmpty]
      · simp [List.filter_reverse, h, nonEmpty]

theorem flatten_filter_nonEmpty (l : List (List Nat)) : (l.filter nonEmpty).flatten = l.flatten := by
  induction l with
  | nil => rfl
  | cons d l ih =>
    cases d with
    | nil => simp [List.filter, nonEmpty, ih]
    | cons x xs => simp [List.filter, nonEmpty, ih]

/-- **copier_faithful.** Whatever the reader and writer do: the copier hands to `Write` exactly the non-empty
chunks it read, in order, all of them up to and including its terminating read — so the byte string offered
to the destination equals the byte string taken from the source. -/
theorem copier_faithful (rs : List ReadRes) (ws : List WriteRes) :
    (copy rs ws).calls = (copy rs ws).taken.filter nonEmpty ∧
    (copy rs ws).calls.flatten = (copy rs ws).taken.flatten := by
  have h := copyLoop_calls rs ws [] [] 0 rfl
  exact ⟨h, by rw [show (copy rs ws) = copyLoop rs ws [] [] 0 from rfl, h, flatten_filter_nonEmpty]⟩

theorem copyLoop_taken (rs : List ReadRes) : ∀ (ws : List WriteRes) (calls taken : List (List Nat)) (wr : Int),
    ∃ k, (copyLoop rs ws calls taken wr).taken = taken.reverse ++ (rs.map ReadRes.data ++ [[]]).take k := by
  induction rs with
  | nil => intro ws calls taken wr; exact ⟨1, by simp [copyLoop]⟩
  | cons r rs ih =>
    intro ws calls taken wr
    rw [copyLoop]
    have one : (r.data :: taken).reverse = taken.reverse ++ ((r :: rs).map ReadRes.data ++ [[]]).take 1 := by simp
    have more : ∀ k, (r.data :: taken).reverse ++ (rs.map ReadRes.data ++ [[]]).take k =
        taken.reverse ++ ((r :: rs).map ReadRes.data ++ [[]]).take (k + 1) := by intro k; simp
    dsimp only
    by_cases c : r.data ≠ []
    · rw [if_pos c]
      generalize judge r.data.length (nextWrite ws r.data.length).1 = j
      by_cases c2 : j.2 ≠ none
      · rw [if_pos c2]; exact ⟨1, one⟩
      · rw [if_neg c2]
        by_cases c3 : (r.data.length : Int) ≠ j.1
        · rw [if_pos c3]; exact ⟨1, one⟩
        · rw [if_neg c3]
          cases he : r.err with
          | none =>
            obtain ⟨k, hk⟩ := ih (nextWrite ws r.data.length).2 (r.data :: calls) (r.data :: taken) (wr + j.1)
            exact ⟨k + 1, by rw [← more]; exact hk⟩
          | some e => cases e <;> exact ⟨1, one⟩
    · rw [if_neg c]
      cases he : r.err with
      | none =>
        obtain ⟨k, hk⟩ := ih ws calls (r.data :: taken) wr
        exact ⟨k + 1, by rw [← more]; exact hk⟩
      | some e => cases e <;> exact ⟨1, one⟩

/-- The copier consumes the source from its beginning, in order, without skipping. -/
theorem copier_reads_in_order (rs : List ReadRes) (ws : List WriteRes) :
    (copy rs ws).taken <+: rs.map ReadRes.data ++ [[]] := by
  obtain ⟨k, hk⟩ := copyLoop_taken rs ws [] [] 0
  rw [show (copy rs ws) = copyLoop rs ws [] [] 0 from rfl, hk]
  simpa using List.take_prefix k _

theorem judge_ok (nr : Nat) (w : WriteRes) (h2 : (judge nr w).2 = none) (h1 : (nr : Int) = (judge nr w).1) :
    w.n = nr ∧ w.err = none := by
  unfold judge at h1 h2
  by_cases c : w.n < 0 ∨ (nr : Int) < w.n
  · simp only [c, if_true] at h2; split at h2 <;> simp_all
  · simp only [c, if_false] at h1 h2; exact ⟨h1.symm, h2⟩

theorem flatten_reverse_length (l : List (List Nat)) : l.reverse.flatten.length = l.flatten.length := by
  induction l with
  | nil => rfl
  | cons d l ih => simp [List.flatten_append, ih]; omega

theorem copyLoop_ok (rs : List ReadRes) : ∀ (ws : List WriteRes) (calls taken : List (List Nat)) (wr : Int),
    wr = (calls.flatten.length : Int) → (copyLoop rs ws calls taken wr).err = none →
    (copyLoop rs ws calls taken wr).written = ((copyLoop rs ws calls taken wr).calls.flatten.length : Int) := by
  induction rs with
  | nil => intro ws calls taken wr h _; simp only [copyLoop, flatten_reverse_length, h]
  | cons r rs ih =>
    intro ws calls taken wr h
    have hflat : ∀ (d : List Nat), (((d :: calls).reverse.flatten.length : Nat) : Int) = wr + d.length := by
      intro d; rw [h, flatten_reverse_length]; simp; omega
    have hflat0 : ((calls.reverse.flatten.length : Nat) : Int) = wr := by
      rw [h, flatten_reverse_length]
    rw [copyLoop]
    dsimp only
    by_cases c : r.data ≠ []
    · rw [if_pos c]
      generalize hj : judge r.data.length (nextWrite ws r.data.length).1 = j
      by_cases c2 : j.2 ≠ none
      · rw [if_pos c2]; intro he; exact absurd he c2
      · rw [if_neg c2]
        by_cases c3 : (r.data.length : Int) ≠ j.1
        · rw [if_pos c3]; intro he; simp at he
        · rw [if_neg c3]
          have c3' : (r.data.length : Int) = j.1 := by simpa using c3
          cases he : r.err with
          | none =>
            exact ih _ _ _ _ (by rw [← c3', h]; simp; omega)
          | some e =>
            cases e <;> simp only <;> intro hh
            · rw [hflat, c3']
            all_goals simp at hh
    · rw [if_neg c]
      cases he : r.err with
      | none => exact ih _ _ _ _ h
      | some e =>
        cases e <;> simp only <;> intro hh
        · exact hflat0.symm
        all_goals simp at hh

/-- **copier_complete.** When the copier ends without error, the destination accepted (returned `nw = nr`,
no error, for every call) exactly as many bytes as were offered, i.e. every byte read from the source up to
its end-of-stream was delivered. -/
theorem copier_complete (rs : List ReadRes) (ws : List WriteRes) (h : (copy rs ws).err = none) :
    (copy rs ws).written = ((copy rs ws).taken.flatten.length : Int) := by
  rw [← (copier_faithful rs ws).2]
  exact copyLoop_ok rs ws [] [] 0 (by simp) h

/-! ## Part 2: `Pipe` — all interleavings of the two copiers and the closer -/

/-- 1 once the goroutine has closed the stream it writes to -/
def cw : PC → Nat
  | .copying | .closing1 _ => 0
  | _ => 1
/-- 1 once the goroutine has closed the stream it reads from -/
def cr : PC → Nat
  | .copying | .closing1 _ | .closing2 _ => 0
  | _ => 1
def live : PC → Nat
  | .exited _ => 0
  | _ => 1
/-- what the goroutine has put on the channel -/
def sent : PC → List Err
  | .exiting (some e) | .exited (some e) => [e]
  | _ => []

structure PInv (s : PState) : Prop where
  cx : s.closesX = cr s.pcA + cw s.pcB
  cy : s.closesY = cw s.pcA + cr s.pcB
  wg : s.wg = live s.pcA + live s.pcB
  ch : s.chan = sent s.pcA ++ sent s.pcB ∨ s.chan = sent s.pcB ++ sent s.pcA
  nb : s.blocked = false
  np : s.panicked = false
  cl : s.chanClosed = true → s.wg = 0

theorem sent_len (p : PC) : (sent p).length ≤ 1 := by
  cases p <;> simp [sent] <;> rename_i e <;> cases e <;> simp

theorem pinv_step (s : PState) (e : PEv) (h : PInv s) : PInv (pstep s e) := by
  obtain ⟨cx, cy, wg, ch, nb, np, cl⟩ := h
  have la := sent_len s.pcA; have lb := sent_len s.pcB
  cases e with
  | finishA e =>
    unfold pstep; cases hA : s.pcA <;> simp only
    case copying => exact ⟨by simp_all [cr, cw], by simp_all [cr, cw], by simp_all [live], by simp_all [sent], nb, np, cl⟩
    all_goals exact ⟨by simp_all, by simp_all, by simp_all, by simp_all, nb, np, cl⟩
  | finishB e =>
    unfold pstep; cases hB : s.pcB <;> simp only
    case copying => exact ⟨by simp_all [cr, cw], by simp_all [cr, cw], by simp_all [live], by simp_all [sent], nb, np, cl⟩
    all_goals exact ⟨by simp_all, by simp_all, by simp_all, by simp_all, nb, np, cl⟩
  | stepA =>
    unfold pstep; cases hA : s.pcA <;> simp only
    case copying => exact ⟨by simp_all, by simp_all, by simp_all, by simp_all, nb, np, cl⟩
    case closing1 e => exact ⟨by simp_all [cr, cw], by simp_all [cr, cw] <;> omega, by simp_all [live], by simp_all [sent], nb, np, cl⟩
    case closing2 e => exact ⟨by simp_all [cr, cw] <;> omega, by simp_all [cr, cw], by simp_all [live], by simp_all [sent], nb, np, cl⟩
    case reporting e =>
      have hw : s.wg ≥ 1 := by rw [wg, hA]; simp [live]
      have hcl : s.chanClosed = false := by
        cases hc : s.chanClosed
        · rfl
        · have := cl hc; omega
      have hch : s.chan = sent s.pcB := by
        rcases ch with c | c <;> rw [c, hA] <;> simp [sent]
      cases e with
      | none =>
        simp only [send]
        exact ⟨by simp_all [cr, cw], by simp_all [cr, cw], by simp_all [live], by simp_all [sent], nb, np, cl⟩
      | some e =>
        have hlen : ¬ s.chan.length ≥ 2 := by rw [hch]; omega
        simp only [send, hcl, Bool.false_eq_true, if_false, hlen]
        exact ⟨by simp_all [cr, cw], by simp_all [cr, cw], by simp_all [live], by simp_all [sent], nb, np, by simp_all⟩
    case exiting e =>
      refine ⟨by simp_all [cr, cw], by simp_all [cr, cw], by simp_all [live], ?_, nb, np, ?_⟩
      · rw [hA] at ch; cases e <;> simpa [sent] using ch
      · intro hc; have := cl hc; simp only; omega
    case exited e => exact ⟨by simp_all, by simp_all, by simp_all, by simp_all, nb, np, cl⟩
  | stepB =>
    unfold pstep; cases hB : s.pcB <;> simp only
    case copying => exact ⟨by simp_all, by simp_all, by simp_all, by simp_all, nb, np, cl⟩
    case closing1 e => exact ⟨by simp_all [cr, cw] <;> omega, by simp_all [cr, cw], by simp_all [live], by simp_all [sent], nb, np, cl⟩
    case closing2 e => exact ⟨by simp_all [cr, cw], by simp_all [cr, cw] <;> omega, by simp_all [live], by simp_all [sent], nb, np, cl⟩
    case reporting e =>
      have hw : s.wg ≥ 1 := by rw [wg, hB]; simp [live]
      have hcl : s.chanClosed = false := by
        cases hc : s.chanClosed
        · rfl
        · have := cl hc; omega
      have hch : s.chan = sent s.pcA := by
        rcases ch with c | c <;> rw [c, hB] <;> simp [sent]
      cases e with
      | none =>
        simp only [send]
        exact ⟨by simp_all [cr, cw], by simp_all [cr, cw], by simp_all [live], by simp_all [sent], nb, np, cl⟩
      | some e =>
        have hlen : ¬ s.chan.length ≥ 2 := by rw [hch]; omega
        simp only [send, hcl, Bool.false_eq_true, if_false, hlen]
        exact ⟨by simp_all [cr, cw], by simp_all [cr, cw], by simp_all [live], by simp_all [sent], nb, np, by simp_all⟩
    case exiting e =>
      refine ⟨by simp_all [cr, cw], by simp_all [cr, cw], by simp_all [live], ?_, nb, np, ?_⟩
      · rw [hB] at ch; cases e <;> simpa [sent] using ch
      · intro hc; have := cl hc; simp only; omega
    case exited e => exact ⟨by simp_all, by simp_all, by simp_all, by simp_all, nb, np, cl⟩
  | closer =>
    unfold pstep
    by_cases c : s.wg = 0 ∧ (!s.chanClosed) = true
    · rw [if_pos c]
      exact ⟨cx, cy, wg, ch, nb, np, fun _ => c.1⟩
    · rw [if_neg c]
      exact ⟨cx, cy, wg, ch, nb, np, cl⟩

theorem pinv_foldl (evs : List PEv) : ∀ s, PInv s → PInv (evs.foldl pstep s) := by
  induction evs with
  | nil => intro s h; exact h
  | cons e es ih => intro s h; exact ih _ (pinv_step s e h)

/-- The invariant holds after every interleaving. -/
theorem pinv_run (evs : List PEv) : PInv (prun evs) :=
  pinv_foldl evs _ ⟨rfl, rfl, rfl, Or.inl rfl, rfl, rfl, by intro h; simp at h⟩

/-- **errchan_never_blocks.** In every interleaving no copier ever finds the error channel full (buffer 2,
at most one send per copier) and nobody sends on the closed channel (no panic). -/
theorem errchan_never_blocks (evs : List PEv) :
    (prun evs).blocked = false ∧ (prun evs).panicked = false ∧ (prun evs).chan.length ≤ 2 := by
  have h := pinv_run evs
  have la := sent_len (prun evs).pcA; have lb := sent_len (prun evs).pcB
  refine ⟨h.nb, h.np, ?_⟩
  rcases h.ch with c | c <;> rw [c, List.length_append] <;> omega

theorem live_zero (p : PC) (h : live p = 0) : ∃ e, p = .exited e := by
  cases p <;> simp [live] at h ⊢

/-- **completion_reported / both_closed_on_exit / errors delivered.** Whenever the returned channel is closed:
both copiers have exited; each of the two streams received exactly two `Close()` calls (one per copier);
and the channel holds exactly the non-nil results of the two `io.CopyBuffer` calls (in either order),
nothing else. -/
theorem completion_reported (evs : List PEv) (hc : (prun evs).chanClosed = true) :
    ∃ ea eb, (prun evs).pcA = .exited ea ∧ (prun evs).pcB = .exited eb ∧
      (prun evs).closesX = 2 ∧ (prun evs).closesY = 2 ∧
      ((prun evs).chan = ea.toList ++ eb.toList ∨ (prun evs).chan = eb.toList ++ ea.toList) := by
  have h := pinv_run evs
  have hw := h.cl hc
  rw [h.wg] at hw
  obtain ⟨ea, ha⟩ := live_zero (prun evs).pcA (by omega)
  obtain ⟨eb, hb⟩ := live_zero (prun evs).pcB (by omega)
  refine ⟨ea, eb, ha, hb, by rw [h.cx, ha, hb]; rfl, by rw [h.cy, ha, hb]; rfl, ?_⟩
  have hch := h.ch
  rw [ha, hb] at hch
  cases ea <;> cases eb <;> simpa [sent] using hch

/-- Conversely, once both copiers have exited the closer goroutine is enabled and closes the channel. -/
theorem completion_enabled (evs : List PEv) (ea eb : Option Err)
    (ha : (prun evs).pcA = .exited ea) (hb : (prun evs).pcB = .exited eb) :
    (pstep (prun evs) .closer).chanClosed = true := by
  have h := pinv_run evs
  have hw : (prun evs).wg = 0 := by rw [h.wg, ha, hb]; rfl
  unfold pstep
  cases hc : (prun evs).chanClosed <;> simp [hw, hc]

/-- **both streams closed by each copier before it reports.** -/
theorem both_closed_on_exit (evs : List PEv) :
    (cr (prun evs).pcA = 1 → 1 ≤ (prun evs).closesX ∧ 1 ≤ (prun evs).closesY) ∧
    (cr (prun evs).pcB = 1 → 1 ≤ (prun evs).closesX ∧ 1 ≤ (prun evs).closesY) := by
  have h := pinv_run evs
  have e1 : ∀ p, cr p = 1 → cw p = 1 := by intro p; cases p <;> simp [cr, cw]
  refine ⟨fun ha => ?_, fun hb => ?_⟩
  · have := e1 _ ha; rw [h.cx, h.cy]; omega
  · have := e1 _ hb; rw [h.cx, h.cy]; omega

/-- the result a goroutine carries after `io.CopyBuffer` returned -/
def carried : PC → Option (Option Err)
  | .copying => none
  | .closing1 e | .closing2 e | .reporting e | .exiting e | .exited e => some e

theorem send_pcs (s : PState) (e : Option Err) : (send s e).pcA = s.pcA ∧ (send s e).pcB = s.pcB := by
  unfold send
  cases e with
  | none => exact ⟨rfl, rfl⟩
  | some e =>
    simp only
    by_cases c1 : s.chanClosed = true
    · rw [if_pos c1]; exact ⟨rfl, rfl⟩
    · rw [if_neg c1]
      by_cases c2 : s.chan.length ≥ 2
      · rw [if_pos c2]; exact ⟨rfl, rfl⟩
      · rw [if_neg c2]; exact ⟨rfl, rfl⟩

theorem carried_step (s : PState) (ev : PEv) (e : Option Err) :
    (carried (pstep s ev).pcA = some e → carried s.pcA = some e ∨ ev = .finishA e) ∧
    (carried (pstep s ev).pcB = some e → carried s.pcB = some e ∨ ev = .finishB e) := by
  have sp := send_pcs s
  cases ev with
  | finishA e' =>
    unfold pstep; cases hA : s.pcA <;> simp only [carried, hA] <;> simp <;> (intro h; exact Or.inl h)
  | finishB e' =>
    unfold pstep; cases hB : s.pcB <;> simp only [carried, hB] <;> simp <;> (intro h; exact Or.inl h)
  | stepA =>
    unfold pstep; cases hA : s.pcA <;> simp only [carried, hA, (sp _).2] <;> simp
  | stepB =>
    unfold pstep; cases hB : s.pcB <;> simp only [carried, hB, (sp _).1] <;> simp
  | closer =>
    simp only [pstep]; split <;> simp

theorem carried_foldl (evs : List PEv) : ∀ (s : PState) (e : Option Err),
    (carried (evs.foldl pstep s).pcA = some e → carried s.pcA = some e ∨ PEv.finishA e ∈ evs) ∧
    (carried (evs.foldl pstep s).pcB = some e → carried s.pcB = some e ∨ PEv.finishB e ∈ evs) := by
  induction evs with
  | nil => intro s e; exact ⟨Or.inl, Or.inl⟩
  | cons ev es ih =>
    intro s e
    obtain ⟨iA, iB⟩ := ih (pstep s ev) e
    obtain ⟨sA, sB⟩ := carried_step s ev e
    refine ⟨fun h => ?_, fun h => ?_⟩
    · rcases iA h with c | c
      · rcases sA c with d | d
        · exact Or.inl d
        · exact Or.inr (by rw [d]; exact List.mem_cons_self)
      · exact Or.inr (List.mem_cons_of_mem _ c)
    · rcases iB h with c | c
      · rcases sB c with d | d
        · exact Or.inl d
        · exact Or.inr (by rw [d]; exact List.mem_cons_self)
      · exact Or.inr (List.mem_cons_of_mem _ c)

/-- The error a copier exits with (and hence what it sent) is the result of its own `io.CopyBuffer`. -/
theorem exit_error_is_copy_error (evs : List PEv) (e : Option Err) :
    ((prun evs).pcA = .exited e → PEv.finishA e ∈ evs) ∧ ((prun evs).pcB = .exited e → PEv.finishB e ∈ evs) := by
  obtain ⟨a, b⟩ := carried_foldl evs {} e
  refine ⟨fun h => ?_, fun h => ?_⟩
  · rcases a (by rw [show (List.foldl pstep {} evs) = prun evs from rfl, h]; rfl) with c | c
    · simp [carried] at c
    · exact c
  · rcases b (by rw [show (List.foldl pstep {} evs) = prun evs from rfl, h]; rfl) with c | c
    · simp [carried] at c
    · exact c


/-! ## Part 3: both directions at the same time — buffers and piecewise-consumed writes -/

/-- the part of the write in flight that the destination has not consumed yet, as it is in memory NOW -/
def window (bufOf : Dir → Nat) (s : DState) (d : Dir) : List Nat :=
  ((s.mem (bufOf d)).drop (s.half d).off).take ((s.half d).nr - (s.half d).off)

structure DInv (bufOf : Dir → Nat) (s : DState) : Prop where
  len : ∀ i, (s.mem i).length = bufferSize
  le : ∀ d, (s.half d).off ≤ (s.half d).nr ∧ (s.half d).nr ≤ bufferSize
  win : ∀ d, (s.half d).delivered ++ window bufOf s d = (s.half d).taken

theorem half_setHalf (s : DState) (d d' : Dir) (h : Half) :
    (s.setHalf d h).half d' = if d' = d then h else s.half d' := by
  cases d <;> cases d' <;> simp [DState.setHalf, DState.half]

theorem half_withMem (s : DState) (m : Nat → List Nat) (d : Dir) : ({ s with mem := m }).half d = s.half d := by
  cases d <;> rfl

theorem mem_setHalf (s : DState) (d : Dir) (h : Half) : (s.setHalf d h).mem = s.mem := by
  cases d <;> rfl

theorem take_split (l : List Nat) (k n : Nat) (h : k ≤ n) :
    l.take k ++ (l.drop k).take (n - k) = l.take n := by
  have : n = k + (n - k) := by omega
  rw [this, List.take_add]; simp

theorem dinv_step (bufOf : Dir → Nat) (hb : bufOf .ab ≠ bufOf .ba) (s : DState) (ev : DEv)
    (h : DInv bufOf s) : DInv bufOf (dstep bufOf s ev) := by
  unfold dstep
  by_cases en : enabled s ev = true
  · rw [if_pos en]
    cases ev with
    | read d chunk =>
      simp only [enabled, Bool.and_eq_true, Bool.not_eq_true', decide_eq_false_iff_not, decide_eq_true_eq] at en
      obtain ⟨hidle, hsz⟩ := en
      have hoff : (s.half d).off = (s.half d).nr := by have := (h.le d).1; omega
      have hdel : (s.half d).delivered = (s.half d).taken := by
        have := h.win d; simpa [window, hoff] using this
      refine ⟨?_, ?_, ?_⟩
      · intro i
        simp only [mem_setHalf]
        by_cases c : i = bufOf d
        · simp only [c, if_true, List.length_append, List.length_drop, h.len]; omega
        · simp only [c, if_false, h.len]
      · intro d'
        rw [half_setHalf]
        by_cases c : d' = d
        · simp only [c, if_true]; exact ⟨Nat.zero_le _, hsz⟩
        · simp only [c, if_false]; exact h.le d'
      · intro d'
        by_cases c : d' = d
        · subst c
          simp only [window, half_setHalf, half_withMem, mem_setHalf, if_true, List.drop_zero, Nat.sub_zero,
            List.take_left', hdel]
        · have hne : bufOf d' ≠ bufOf d := by
            cases d <;> cases d' <;> first | exact absurd rfl c | exact hb | exact hb.symm
          have := h.win d'
          simpa only [window, half_setHalf, half_withMem, mem_setHalf, c, if_false, hne] using this
    | drain d k =>
      simp only [enabled, Bool.and_eq_true, decide_eq_true_eq] at en
      obtain ⟨hk, hfit⟩ := en
      refine ⟨?_, ?_, ?_⟩
      · intro i; simp only [mem_setHalf]; exact h.len i
      · intro d'
        rw [half_setHalf]
        by_cases c : d' = d
        · simp only [c, if_true]; exact ⟨hfit, (h.le d).2⟩
        · simp only [c, if_false]; exact h.le d'
      · intro d'
        by_cases c : d' = d
        · subst c
          have hw := h.win d'
          simp only [window] at hw
          simp only [window, half_setHalf, mem_setHalf, if_true, List.append_assoc]
          rw [← hw, ← take_split ((s.mem (bufOf d')).drop (s.half d').off) k ((s.half d').nr - (s.half d').off) (by omega)]
          simp only [List.drop_drop]
          congr 3
          omega
        · have := h.win d'
          simpa only [window, half_setHalf, mem_setHalf, c, if_false] using this
  · rw [if_neg en]; exact h

theorem dinv_foldl (bufOf : Dir → Nat) (hb : bufOf .ab ≠ bufOf .ba) (evs : List DEv) :
    ∀ s, DInv bufOf s → DInv bufOf (evs.foldl (dstep bufOf) s) := by
  induction evs with
  | nil => intro s h; exact h
  | cons e es ih => intro s h; exact ih _ (dinv_step bufOf hb s e h)

/-- **duplex_inv_run.** With one buffer per direction, after EVERY interleaving of reads and piecewise drains of the
two directions, whatever the pooled buffers contained: for each direction, the bytes consumed by the destination
followed by the not yet consumed part of the write in flight (as it is in memory now) are exactly the bytes read. -/
theorem duplex_inv_run (bufOf : Dir → Nat) (hb : bufOf .ab ≠ bufOf .ba) (m0 : Nat → List Nat)
    (hm : ∀ i, (m0 i).length = bufferSize) (evs : List DEv) : DInv bufOf (drun bufOf m0 evs) :=
  dinv_foldl bufOf hb evs _ ⟨hm, by intro d; cases d <;> simp [DState.half], by intro d; cases d <;> simp [DState.half, window]⟩

/-- **duplex_in_order.** Traffic in both directions at once: what a destination has consumed is always a prefix of
what was read from the opposite side — the same bytes, in order, nothing from the other direction mixed in. -/
theorem duplex_in_order (bufOf : Dir → Nat) (hb : bufOf .ab ≠ bufOf .ba) (m0 : Nat → List Nat)
    (hm : ∀ i, (m0 i).length = bufferSize) (evs : List DEv) (d : Dir) :
    ((drun bufOf m0 evs).half d).delivered <+: ((drun bufOf m0 evs).half d).taken :=
  ⟨_, (duplex_inv_run bufOf hb m0 hm evs).win d⟩

/-- **duplex_counts.** The destination is never short-changed: consumed bytes + bytes still in flight = bytes read. -/
theorem duplex_counts (bufOf : Dir → Nat) (hb : bufOf .ab ≠ bufOf .ba) (m0 : Nat → List Nat)
    (hm : ∀ i, (m0 i).length = bufferSize) (evs : List DEv) (d : Dir) :
    ((drun bufOf m0 evs).half d).delivered.length +
      (((drun bufOf m0 evs).half d).nr - ((drun bufOf m0 evs).half d).off) =
    ((drun bufOf m0 evs).half d).taken.length := by
  have h := duplex_inv_run bufOf hb m0 hm evs
  have hw := congrArg List.length (h.win d)
  have hl := h.len (bufOf d)
  have hle := h.le d
  simp only [List.length_append, window, List.length_take, List.length_drop, hl] at hw
  omega

/-- **duplex_complete.** Whenever a direction has no write in flight, everything read from its source so far has
arrived at its destination (in particular when the source ends: a copier only reads when its write has returned). -/
theorem duplex_complete (bufOf : Dir → Nat) (hb : bufOf .ab ≠ bufOf .ba) (m0 : Nat → List Nat)
    (hm : ∀ i, (m0 i).length = bufferSize) (evs : List DEv) (d : Dir)
    (hidle : ((drun bufOf m0 evs).half d).off = ((drun bufOf m0 evs).half d).nr) :
    ((drun bufOf m0 evs).half d).delivered = ((drun bufOf m0 evs).half d).taken := by
  have h := (duplex_inv_run bufOf hb m0 hm evs).win d
  simpa [window, hidle] using h

/-- the code's buffer assignment satisfies the hypothesis -/
theorem codeBufOf_distinct : codeBufOf .ab ≠ codeBufOf .ba := by decide

/-! ### non-vacuity -/

/-- reader: "ab", "" (0,nil), "c"+EOF; writer accepts everything -/
example : (copy [⟨[1,2], none⟩, ⟨[], none⟩, ⟨[3], some .eof⟩] []).calls = [[1,2],[3]] ∧
    (copy [⟨[1,2], none⟩, ⟨[], none⟩, ⟨[3], some .eof⟩] []).err = none ∧
    (copy [⟨[1,2], none⟩, ⟨[], none⟩, ⟨[3], some .eof⟩] []).written = 3 := by decide
/-- short write and invalid write are detected -/
example : (copy [⟨[1,2], none⟩] [⟨1, none⟩]).err = some .shortWrite ∧
    (copy [⟨[1,2], none⟩] [⟨3, none⟩]).err = some .invalidWrite ∧
    (copy [⟨[1,2], some (.other 7)⟩] []).err = some (.other 7) := by decide
/-- a full interleaving: A ends with EOF (nil), B with an error; channel closed with exactly that error -/
def demo : List PEv :=
  [.finishA none, .stepA, .finishB (some (.other 1)), .stepB, .stepA, .stepB, .stepB, .stepA, .stepA, .stepB, .closer]
example : (prun demo).chanClosed = true ∧ (prun demo).chan = [.other 1] ∧ (prun demo).closesX = 2 ∧
    (prun demo).closesY = 2 := by decide
/-- the closer cannot fire early -/
example : (prun [.finishA none, .stepA, .stepA, .stepA, .stepA, .closer]).chanClosed = false := by decide

/-- both directions busy at once: A→B's chunk is half consumed when B→A's chunk arrives; with the code's own
buffer per direction everything arrives intact, whatever the pooled buffers contained -/
def overlap : List DEv :=
  [.read .ab [65,65,65,65], .drain .ab 2, .read .ba [66,66,66,66], .drain .ab 2, .drain .ba 3]
example (m0 : Nat → List Nat) : ((drun codeBufOf m0 overlap).half .ab).delivered = [65,65,65,65] ∧
    ((drun codeBufOf m0 overlap).half .ba).delivered = [66,66,66] ∧
    ((drun codeBufOf m0 overlap).half .ba).taken = [66,66,66,66] ∧
    ((drun codeBufOf m0 overlap).half .ab).off = ((drun codeBufOf m0 overlap).half .ab).nr := by
  simp [drun, overlap, dstep, enabled, DState.half, DState.setHalf, codeBufOf, bufferSize]
/-- buffers as the pool hands them out exist -/
example : ∀ i, ((fun _ => List.replicate bufferSize 0 : Nat → List Nat) i).length = bufferSize := by intro i; simp
/-- sensitivity: the hypothesis "one buffer per direction" is needed — through a shared buffer the same interleaving
delivers bytes of the opposite direction -/
example (m0 : Nat → List Nat) : ((drun (fun _ => 0) m0 overlap).half .ab).delivered = [65,65,66,66] := by
  simp [drun, overlap, dstep, enabled, DState.half, DState.setHalf, bufferSize]

end Specter.C40
