// C41 correspondence.
//  1. table: the decision table of the CURRENT overlay/reuse.go (printed by `extract c41-lines`, honouring
//     VERIF_MUTANT_DIR) row by row — compared by the driver with the generated Lean definitions.
//     leaf rows: <peer state> <peer dir> <snapshot cached> <snapshot dir> <dir of this connection>
//     <rc: the re-load finds an entry> <rcdir: direction of that entry>.
//     reap rows (overlay/reaper.go, reapPeer): <loaded: an entry is cached for the peer> => what happens to it.
//     watch rows (overlay/transport.go, handleIncoming / handleOutgoing): <dir> <reused flag of reuseConnection> => which
//     connections get a close-watcher that calls reapPeer: the returned one, the negotiated one when another was returned.
//  2. sched: every maximal interleaving of one dial / two simultaneous dials (snapshot, decide, reap steps) from every
//     consistent pre-existing cache state, executed by a simulator over the CURRENT rows; the driver compares the
//     final state with the Lean model and judges it against the property. Step labels: s/d/r + Pc|Qc|Qd|Pd
//     (snapshot, decide, reap of a stored connection that died), eP|eQ (reap by the close-watcher of the pre-existing
//     connection e), lP|lQ (a STALE reap: reapPeer runs a second time for an older connection that died and was
//     reaped long ago — periodic reaper() and close goroutine both reaped it — at any moment of the schedule),
//     kE (the pre-existing connection e DIES for a reason outside the negotiation, at any moment of the schedule; its
//     close-watchers eP / eQ become due and run before, between or after the snapshot and the decision of the
//     negotiation ends of their side — an end can report CACHED and find the entry gone when it decides).
//     A state is final when no s/d/r/e step is enabled; stale reaps and the death of e are optional environment
//     events, every final state on the way is reported.
//  3. live (see live.go): two real overlay.QUIC transports on loopback: simultaneous dials,
//     connect / connection dies / reconnect the other way round / late second reap of the dead connection, and
//     redial: the peers share a cached connection and one of them dials a further one (real handleOutgoing, real accept
//     loop + handleIncoming, nothing else happens): afterwards the shared connection must still be alive and cached.
//  4. win (see window.go): two real transports that cache a shared connection negotiate a further one over relayed
//     negotiation streams, so that the harness executes chosen interleavings of the model (the cached connection dies
//     and is reaped between an end's CACHED report and its decision, …) with the real reuseConnection / reapPeer.
package main

import (
	"fmt"
	"os"
	"os/exec"
	"path/filepath"
	"strings"

	"verif/harness/hlib"
)

type act struct {
	reload, closeFresh, closeCache, del, reused bool
	store, ret, err                             string
}

type reapAct struct{ del, closeCached, closeTrigger bool }
type watchAct struct{ returned, negotiated bool }

var snapRows = map[string][2]string{}
var leafRows = map[string]act{}
var reapRows = map[string]reapAct{}
var watchRows = map[string]watchAct{}
var tableLines []string

func srcPath(rel string) string {
	repo := os.Getenv("VERIF_REPO")
	if repo == "" {
		repo = "/repo"
	}
	if m := os.Getenv("VERIF_MUTANT_DIR"); m != "" {
		if _, err := os.Stat(filepath.Join(m, rel)); err == nil {
			return filepath.Join(m, rel)
		}
	}
	return filepath.Join(repo, rel)
}

func loadTable() error {
	exe := os.Getenv("VERIF_EXTRACT")
	if exe == "" {
		exe = "/verif/build/extract"
	}
	out, err := exec.Command(exe, "c41-lines", srcPath("overlay/reuse.go"), srcPath("overlay/reaper.go"), srcPath("overlay/transport.go")).CombinedOutput()
	if err != nil {
		return fmt.Errorf("extract c41-lines: %v: %s", err, out)
	}
	for _, l := range strings.Split(strings.TrimSpace(string(out)), "\n") {
		parts := strings.SplitN(l, " => ", 2)
		if len(parts) != 2 {
			return fmt.Errorf("bad row %q", l)
		}
		t := strings.Fields(parts[0])
		tableLines = append(tableLines, l)
		switch t[0] {
		case "snap":
			r := strings.Split(parts[1], ",")
			snapRows[strings.Join(t[1:], " ")] = [2]string{r[0], r[1]}
		case "leaf":
			a := act{}
			for _, kv := range strings.Split(parts[1], ",") {
				p := strings.SplitN(kv, "=", 2)
				switch p[0] {
				case "reload":
					a.reload = p[1] == "true"
				case "closeFresh":
					a.closeFresh = p[1] == "true"
				case "closeCache":
					a.closeCache = p[1] == "true"
				case "del":
					a.del = p[1] == "true"
				case "reused":
					a.reused = p[1] == "true"
				case "store":
					a.store = p[1]
				case "ret":
					a.ret = p[1]
				case "err":
					a.err = p[1]
				}
			}
			leafRows[strings.Join(t[1:], " ")] = a
		case "reap":
			a := reapAct{}
			for _, kv := range strings.Split(parts[1], ",") {
				p := strings.SplitN(kv, "=", 2)
				switch p[0] {
				case "del":
					a.del = p[1] == "true"
				case "closeCached":
					a.closeCached = p[1] == "true"
				case "closeTrigger":
					a.closeTrigger = p[1] == "true"
				}
			}
			reapRows[strings.Join(t[1:], " ")] = a
		case "watch":
			a := watchAct{}
			for _, kv := range strings.Split(parts[1], ",") {
				p := strings.SplitN(kv, "=", 2)
				switch p[0] {
				case "returned":
					a.returned = p[1] == "true"
				case "negotiated":
					a.negotiated = p[1] == "true"
				}
			}
			watchRows[strings.Join(t[1:], " ")] = a
		}
	}
	if len(reapRows) != 2 || len(watchRows) != 4 || len(snapRows) == 0 || len(leafRows) == 0 {
		return fmt.Errorf("incomplete table (%d snap, %d leaf, %d reap, %d watch rows)", len(snapRows), len(leafRows), len(reapRows), len(watchRows))
	}
	return nil
}

// ---------- simulator (mirror of Model.lean `step`) ----------

type entry struct {
	conn string // "" = none
	dir  string // incoming|outgoing
}

type proc struct {
	pc     int // 0 idle, 1 snapped, 2 done
	snap   entry
	status [2]string
	res    string
	// the end started a close-watcher (-> reapPeer) for the connection it negotiated / that watcher has run
	watched bool
	reaped  bool
}

type state struct {
	dual   bool
	pre    pre
	cache  [2]entry        // P, Q
	closed map[string]byte // connection -> what closed it first: 'n' negotiation (or a reap it caused), 'l' environment: stale reap / death of e (or a reap it caused)
	p      [4]proc         // Pc Qc Qd Pd
	watch  [2]bool         // close-watcher goroutine of the pre-existing connection e still waiting at P, Q
	late   [2]bool         // a stale reap may still run at P, Q
	die    bool            // the pre-existing connection e may still die for a reason outside the negotiation
	// statistics only (not part of the state): an end decided although the entry it reported as CACHED had gone
	win bool
}

var procName = []string{"Pc", "Qc", "Qd", "Pd"}
var procSide = []int{0, 1, 1, 0}
var procConn = []string{"c", "c", "d", "d"}
var procDir = []string{"outgoing", "incoming", "outgoing", "incoming"}
var procPeer = []int{1, 0, 3, 2}
var sideName = []string{"P", "Q"}

func (s *state) clone() *state {
	n := *s
	n.closed = map[string]byte{}
	for k, v := range s.closed {
		n.closed[k] = v
	}
	return &n
}

func b(x bool) string {
	if x {
		return "true"
	}
	return "false"
}

func dirOr(e entry) string {
	if e.conn == "" {
		return "incoming"
	}
	return e.dir
}

// a step label: kind s|d|r + process, or kind e|l + side, or kE
type label struct {
	kind byte
	i    int
}

func (l label) String() string {
	if l.kind == 'k' {
		return "kE"
	}
	if l.kind == 'e' || l.kind == 'l' {
		return string(l.kind) + sideName[l.i]
	}
	return string(l.kind) + procName[l.i]
}

func parseLabel(t string) (label, bool) {
	if len(t) < 2 {
		return label{}, false
	}
	if t == "kE" {
		return label{'k', 0}, true
	}
	names := procName
	if t[0] == 'e' || t[0] == 'l' {
		names = sideName
	} else if t[0] != 's' && t[0] != 'd' && t[0] != 'r' {
		return label{}, false
	}
	for j, n := range names {
		if n == t[1:] {
			return label{t[0], j}, true
		}
	}
	return label{}, false
}

var ownLabels, envLabels, allLabels []label

func init() {
	for _, k := range []byte{'s', 'd', 'r'} {
		for i := 0; i < 4; i++ {
			ownLabels = append(ownLabels, label{k, i})
		}
	}
	ownLabels = append(ownLabels, label{'e', 0}, label{'e', 1})
	envLabels = []label{{'l', 0}, {'l', 1}, {'k', 0}}
	allLabels = append(append([]label{}, ownLabels...), envLabels...)
}

func (s *state) enabled(l label) bool {
	i := l.i
	switch l.kind {
	case 's':
		return (i < 2 || s.dual) && s.p[i].pc == 0
	case 'd':
		return s.p[i].pc == 1 && s.p[procPeer[i]].pc != 0
	case 'r':
		return s.p[i].pc == 2 && s.p[i].watched && !s.p[i].reaped && s.closed[procConn[i]] != 0
	case 'e':
		return s.watch[i] && s.closed["e"] != 0
	case 'l':
		return s.late[i]
	case 'k':
		return s.die && s.closed["e"] == 0
	}
	return false
}

// final: no step of the negotiations and no due reap is left (an environment event may still be possible)
func (s *state) final() bool {
	for _, l := range ownLabels {
		if s.enabled(l) {
			return false
		}
	}
	return true
}

func (s *state) close(conn string, by byte) {
	if conn != "" && s.closed[conn] == 0 && by != 0 {
		s.closed[conn] = by
	}
}

// reapPeer at `side` (atomic under the key's Lock): trigger = the connection whose death started it ("" = a stale
// reap of a connection outside the model), by = what its closes count as
func (s *state) reapPeer(side int, trigger string, by byte) {
	ent := s.cache[side]
	a := reapRows[b(ent.conn != "")]
	if a.closeCached {
		s.close(ent.conn, by)
	}
	if a.closeTrigger {
		s.close(trigger, by)
	}
	if a.del {
		s.cache[side] = entry{}
	}
}

func (s *state) step(l label) {
	i := l.i
	switch l.kind {
	case 's':
		side := procSide[i]
		snap := s.cache[side]
		st := snapRows[b(snap.conn != "")+" "+dirOr(snap)+" "+procDir[i]]
		s.p[i] = proc{pc: 1, snap: snap, status: st}
	case 'd':
		side := procSide[i]
		me := s.p[i]
		peer := s.p[procPeer[i]].status
		cur := s.cache[side]
		// the re-load leaves see the entry that is in the cache now: is there one (rc), and its direction (rcdir)
		key := peer[0] + " " + peer[1] + " " + b(me.snap.conn != "") + " " + dirOr(me.snap) + " " + procDir[i] + " " + b(cur.conn != "") + " " + dirOr(cur)
		a, ok := leafRows[key]
		if !ok { // extractor and harness disagree about the row format: never continue with a zero action
			fmt.Fprintf(os.Stderr, "c41: no table row for %q\n", key)
			os.Exit(2)
		}
		cv := me.snap
		if a.reload {
			cv = cur
		}
		if me.snap.conn != "" && cur.conn != me.snap.conn {
			s.win = true
		}
		if a.closeFresh {
			s.close(procConn[i], 'n')
		}
		if a.closeCache {
			s.close(cv.conn, 'n')
		}
		if a.del {
			s.cache[side] = entry{}
		}
		switch a.store {
		case "fresh":
			s.cache[side] = entry{procConn[i], procDir[i]}
		case "cache":
			s.cache[side] = cv
		}
		res := "err"
		if a.err == "nil" && a.ret == "cache" {
			res = "reused:-"
			if cv.conn != "" {
				res = "reused:" + cv.conn
			}
		} else if a.err == "nil" && a.ret == "fresh" {
			res = "fresh"
		}
		if res == "err" && procDir[i] == "incoming" {
			s.close(procConn[i], 'n')
		}
		// which close-watcher handleIncoming / handleOutgoing start: for the returned connection, or for the negotiated
		// one when another connection was returned
		w := watchRows[procDir[i]+" "+b(a.reused)]
		watched := false
		switch {
		case res == "fresh":
			watched = w.returned
		case res != "err" && cv.conn == procConn[i]:
			watched = w.returned
		case res != "err":
			watched = w.negotiated
		}
		s.p[i] = proc{pc: 2, status: me.status, res: res, watched: watched}
	case 'r':
		s.reapPeer(procSide[i], procConn[i], s.closed[procConn[i]])
		s.p[i].reaped = true
	case 'e':
		s.reapPeer(i, "e", s.closed["e"])
		s.watch[i] = false
	case 'l':
		s.reapPeer(i, "", 'l')
		s.late[i] = false
	case 'k':
		s.close("e", 'l')
		s.die = false
	}
}

func entryTok(e entry) string {
	if e.conn == "" {
		return "-"
	}
	if e.dir == "incoming" {
		return e.conn + ":in"
	}
	return e.conn + ":out"
}

func (s *state) String() string {
	cl := ""
	for _, c := range []string{"e", "c", "d"} {
		switch s.closed[c] {
		case 'n':
			cl += c
		case 'l': // closed by the environment - a stale reap, the death of e - (or by a reap that it caused): upper case
			cl += strings.ToUpper(c)
		}
	}
	if cl == "" {
		cl = "-"
	}
	out := "P=" + entryTok(s.cache[0]) + ";Q=" + entryTok(s.cache[1]) + ";closed=" + cl
	for i := 0; i < 4; i++ {
		r := "idle"
		switch s.p[i].pc {
		case 1:
			r = "snapped"
		case 2:
			r = s.p[i].res
			if s.p[i].reaped {
				r += "+reaped"
			}
		}
		out += ";" + procName[i] + "=" + r
	}
	// one field per close-watcher of the pre-existing connection
	for x, e := range []entry{s.pre.p, s.pre.q} {
		if e.conn != "" {
			w := "reaped"
			if s.watch[x] {
				w = "watch"
			}
			out += ";e" + sideName[x] + "=" + w
		}
	}
	return out
}

type pre struct{ p, q entry }

var preStates = []pre{
	{},
	{p: entry{"e", "outgoing"}}, {p: entry{"e", "incoming"}},
	{q: entry{"e", "incoming"}}, {q: entry{"e", "outgoing"}},
	{entry{"e", "outgoing"}, entry{"e", "incoming"}}, {entry{"e", "incoming"}, entry{"e", "outgoing"}},
}

func (pr pre) hasE() bool { return pr.p.conn != "" || pr.q.conn != "" }

// lateP / lateQ: a stale reap may happen at that side; die: the pre-existing connection (if there is one) may die
func initState(dual bool, pr pre, lateP, lateQ, die bool) *state {
	return &state{dual: dual, pre: pr, cache: [2]entry{pr.p, pr.q}, closed: map[string]byte{},
		watch: [2]bool{pr.p.conn != "", pr.q.conn != ""}, late: [2]bool{lateP, lateQ}, die: die && pr.hasE()}
}

func emitSched(r *hlib.Run, dual bool, pr pre, steps []string, s *state) {
	d := "0"
	if dual {
		d = "1"
	}
	lhs := "sched " + d + " " + entryTok(pr.p) + " " + entryTok(pr.q) + " " + strings.Join(steps, ",")
	if len(steps) == 0 {
		lhs += "-"
	}
	rhs := s.String()
	r.Emit(lhs, rhs)
	r.Case(lhs)
	if strings.Contains(rhs, "reused:") {
		r.Count("sched:some-reuse")
	}
	if strings.Contains(rhs, "=fresh") {
		r.Count("sched:some-store")
	}
	if strings.Contains(rhs, "+reaped") {
		r.Count("sched:reaped")
	}
	nl, nk := 0, 0
	for _, st := range steps {
		if st[0] == 'l' {
			nl++
		}
		if st == "kE" && s.closed["e"] != 0 {
			nk = 1
		}
	}
	r.Count(fmt.Sprintf("sched:stale-reaps=%d", nl))
	r.Count(fmt.Sprintf("sched:e-died=%d", nk))
	if nl > 0 && strings.ContainsAny(field(rhs, "closed"), "ECD") {
		r.Count("sched:stale-reap-closed-a-cached-connection")
	}
	if s.win {
		r.Count("sched:entry-reported-CACHED-gone-at-decision")
	}
	for i := range s.p {
		if s.p[i].pc == 2 && s.p[i].watched && s.p[i].res != "fresh" {
			r.Count("sched:close-watcher-on-a-connection-that-was-not-stored")
		}
	}
	r.Count("sched:dual=" + d)
}

func field(rhs, key string) string {
	for _, f := range strings.Split(rhs, ";") {
		if strings.HasPrefix(f, key+"=") {
			return f[len(key)+1:]
		}
	}
	return ""
}

// every interleaving from s; every final state on the way is reported (an environment event may follow a final state)
func dfs(r *hlib.Run, dual bool, pr pre, s *state, steps []string) {
	if s.final() {
		emitSched(r, dual, pr, steps, s)
	}
	for _, l := range allLabels {
		if s.enabled(l) {
			n := s.clone()
			n.step(l)
			dfs(r, dual, pr, n, append(append([]string{}, steps...), l.String()))
		}
	}
}

func parseEntryTok(t string) entry {
	if t == "-" {
		return entry{}
	}
	p := strings.Split(t, ":")
	d := "outgoing"
	if p[1] == "in" {
		d = "incoming"
	}
	return entry{p[0], d}
}

// run a list of labels (labels that are not enabled are skipped); stale reaps are possible at both sides, e may die
func runSteps(dual bool, pr pre, steps []string) *state {
	s := initState(dual, pr, true, true, true)
	for _, st := range steps {
		if l, ok := parseLabel(st); ok && s.enabled(l) {
			s.step(l)
		}
	}
	return s
}

// complete the run deterministically (no further environment event) so that the reported state is final
func complete(st *state, steps []string) []string {
	for again := true; again; {
		again = false
		for _, l := range ownLabels {
			if st.enabled(l) {
				st.step(l)
				steps = append(steps, l.String())
				again = true
			}
		}
	}
	return steps
}

func main() {
	r := hlib.Start()
	r.Rule = "table rows of the current reuse.go / reaper.go; sched = every interleaving of snapshot/decide/reap steps of one dial or two simultaneous dials from each of the 7 consistent pre-existing cache states (exhaustive, schedule by schedule); the same with environment events at every point of the schedule - stale reaps (second reapPeer of an older dead connection) and the death of the pre-existing connection followed by its close-watchers (so that an end reports CACHED and decides after the entry has gone): one event (stale reap at P, at Q, death of e) schedule by schedule for one dial (and for two dials in the thorough tier), state by state (every reachable final state reported once, with a seed-dependent schedule) for two dials; several events (death of e + a stale reap: schedule by schedule for one dial; stale reaps at both sides with and without the death of e) state by state; plus random step sequences with repeated / disabled labels and all environment events; non-trivial = distinct schedule"
	if err := loadTable(); err != nil {
		// the decision code is no longer in the shape the extractor understands
		r.Emit("table", "unreadable:"+strings.ReplaceAll(err.Error(), " ", "_"))
		// the scenarios with real transports do not need the table
		redial(r, 2)
		relive(r, 2)
		win(r, winPlans())
		live(r, 6)
		r.Finish()
		return
	}
	if r.Replay != "" {
		for _, t := range r.ReplayLines() {
			switch t[0] {
			case "sched":
				pr := pre{parseEntryTok(t[2]), parseEntryTok(t[3])}
				steps := strings.Split(t[4], ",")
				if t[4] == "-" {
					steps = nil
				}
				emitSched(r, t[1] == "1", pr, steps, runSteps(t[1] == "1", pr, steps))
			case "snap", "leaf", "reap", "watch":
				for _, l := range tableLines {
					if strings.HasPrefix(l, strings.Join(t, " ")+" => ") {
						p := strings.SplitN(l, " => ", 2)
						r.Emit(p[0], p[1])
					}
				}
			case "live":
				live(r, 1)
			case "relive":
				relive(r, 1)
			case "redial":
				redialOne(r, t[1] == "e:out")
			case "win":
				win(r, []winPlan{{t[1] == "e:out", strings.Split(t[3], ",")}})
			}
		}
		r.Finish()
		return
	}
	r.Raw("# case table")
	for _, l := range tableLines {
		p := strings.SplitN(l, " => ", 2)
		r.Emit(p[0], p[1])
		r.Case(p[0])
		r.Count("table-row")
	}
	rng := hlib.NewRng(r.Seed)
	// Order: ./check keeps the first 50 spec failures only, and the two-dial schedules without a stale reap contain
	// several hundred lines of the known simultaneous-open finding - they come last, so that they cannot hide another
	// failure.
	for _, pr := range preStates {
		r.Raw("# case sched")
		dfs(r, false, pr, initState(false, pr, false, false, false), nil)
	}
	// environment events at every point of every interleaving: stale reaps (lP, lQ) and the death of the pre-existing
	// connection (kE, followed by its close-watchers eP / eQ).
	// ONE event (a stale reap at P, a stale reap at Q, the death of e): path by path for one dial and, in the thorough
	// tier, for two dials (a few million schedules); state by state for two dials in the quick tier.
	// SEVERAL events (the death of e and a stale reap at P / at Q, path by path for one dial; stale reaps at both sides,
	// with and without the death of e): state by state.
	type envCfg struct{ lateP, lateQ, die bool }
	for _, dual := range []bool{false, true} {
		for _, pr := range preStates {
			for _, c := range []envCfg{{false, false, true}, {true, false, false}, {false, true, false}} {
				if c.die && !pr.hasE() {
					continue
				}
				r.Raw("# case sched")
				if !dual || r.Thorough() {
					dfsLate(r, dual, pr, initState(dual, pr, c.lateP, c.lateQ, c.die), nil, false)
				} else {
					reachLate(r, rng, dual, pr, initState(dual, pr, c.lateP, c.lateQ, c.die), nil, false, map[string]bool{})
				}
			}
			for _, c := range []envCfg{{true, false, true}, {false, true, true}, {true, true, false}, {true, true, true}} {
				if c.die && !pr.hasE() {
					continue
				}
				r.Raw("# case sched")
				if !dual && !(c.lateP && c.lateQ) {
					dfsLate(r, dual, pr, initState(dual, pr, c.lateP, c.lateQ, c.die), nil, false)
				} else {
					reachLate(r, rng, dual, pr, initState(dual, pr, c.lateP, c.lateQ, c.die), nil, false, map[string]bool{})
				}
			}
		}
	}
	nre := 2
	if r.Thorough() {
		nre = 10
	}
	redial(r, nre)
	relive(r, nre)
	// real transports, relayed negotiation: the cached connection dies before / between / after the snapshots and the
	// decisions of a further negotiation
	for i := 0; i < nre/2; i++ {
		win(r, winPlans())
	}
	for _, pr := range preStates {
		r.Raw("# case sched")
		dfs(r, true, pr, initState(true, pr, false, false, false), nil)
	}
	// random label sequences, with repetitions and labels that are not enabled (the model skips them)
	n := 3000
	if r.Thorough() {
		n = 60000
	}
	var names []string
	for _, l := range allLabels {
		names = append(names, l.String())
	}
	for t := 0; t < n; t++ {
		dual := rng.Chance(80)
		pr := hlib.Pick(rng, preStates)
		var steps []string
		for j := 0; j < 6+rng.Intn(24); j++ {
			steps = append(steps, hlib.Pick(rng, names))
		}
		st := runSteps(dual, pr, steps)
		steps = complete(st, steps)
		r.Raw("# case sched")
		emitSched(r, dual, pr, steps, st)
	}
	nlive := 6
	if r.Thorough() {
		nlive = 40
	}
	live(r, nlive)
	r.Finish()
}

// the full state as a key (everything the steps read)
func (s *state) key() string {
	k := s.String()
	for i := 0; i < 4; i++ {
		p := s.p[i]
		k += fmt.Sprintf("|%d/%s/%s/%s/%v", p.pc, entryTok(p.snap), p.status[0], p.status[1], p.watched)
	}
	return k + fmt.Sprintf("|%v%v%v", s.watch, s.late, s.die)
}

// the interleavings with environment events (stale reaps, death of e), path by path: as dfs, but only the final
// states that come after an environment event are reported (the others are those of the run without it).
func dfsLate(r *hlib.Run, dual bool, pr pre, s *state, steps []string, stale bool) {
	if stale && s.final() {
		emitSched(r, dual, pr, steps, s)
	}
	for _, l := range allLabels {
		if s.enabled(l) {
			n := s.clone()
			n.step(l)
			dfsLate(r, dual, pr, n, append(append([]string{}, steps...), l.String()), stale || l.kind == 'l' || l.kind == 'k')
		}
	}
}

// the interleavings with environment events, state by state: every state that is reachable is visited once (the
// steps, the finality of a state and the property depend on the state only), every FINAL state reached after an
// environment event is reported with the first schedule found for it. The order in which the enabled steps are tried is shuffled
// by the seed, so different seeds report different schedules for the same states.
func reachLate(r *hlib.Run, rng *hlib.Rng, dual bool, pr pre, s *state, steps []string, stale bool, seen map[string]bool) {
	k := s.key()
	if stale {
		k += "|stale"
	}
	if seen[k] {
		return
	}
	seen[k] = true
	if stale && s.final() {
		emitSched(r, dual, pr, steps, s)
	}
	var en []label
	for _, l := range allLabels {
		if s.enabled(l) {
			en = append(en, l)
		}
	}
	for i := len(en) - 1; i > 0; i-- {
		j := rng.Intn(i + 1)
		en[i], en[j] = en[j], en[i]
	}
	for _, l := range en {
		n := s.clone()
		n.step(l)
		reachLate(r, rng, dual, pr, n, append(append([]string{}, steps...), l.String()), stale || l.kind == 'l' || l.kind == 'k', seen)
	}
}
