/-!
# C24 — model of opening an existing SQLite database (`kv/sqlite3`: `New` = `migrate` + `prepareStatements`)

A database is its `user_version` plus, for every v1 schema object, either `none` (absent) or
`some rows` (present, with its rows; the index carries `[]`).  The opener only ever looks at object
*names* (`tableExists` / `indexExists`), stamps `user_version`, and runs the embedded migration DDL
inside one transaction.  A migration script can fail part-way: SQLite keeps tables and indexes in one
name space, so `CREATE TABLE [IF NOT EXISTS] x` fails ("there is already an index named x") when a
*foreign index* carries the name `x`, and `CREATE INDEX [IF NOT EXISTS] x` fails ("there is already a
table named x") when a *foreign table* does — whatever `IF NOT EXISTS` says, and invisibly to
`tableExists` / `indexExists`, which filter on the object type.  `clash o` records such a foreign
object of the other kind occupying the name of the v1 object `o`.  The statements of the script that
ran before the failing one have already taken effect at that point; whether they stay in the file is
decided by `applyMigration` (transaction + rollback, fact `txMigration`).  Everything the Go code
consults that is data rather than control flow (`schemaVersion`, the inspected object lists, the
migration list with its `CREATE … [IF NOT EXISTS]` statements, the tables referenced by the prepared
statements, whether `applyMigration` is transactional) is a field of `Facts`, which
`Gen.lean` instantiates from the source on every run.  Core Lean only.
-/
namespace Specter.C24

inductive Obj where
  | keyTrackers | simpleEntries | prefixEntries | leaseEntries | idxHash
deriving DecidableEq, Repr

def Obj.all : List Obj := [.keyTrackers, .simpleEntries, .prefixEntries, .leaseEntries, .idxHash]
def Obj.tables : List Obj := [.keyTrackers, .simpleEntries, .prefixEntries, .leaseEntries]

/-- one embedded migration file: its version and its `CREATE` statements in file order
(`true` = `IF NOT EXISTS`) -/
structure Mig where
  version : Int
  creates : List (Obj × Bool)
deriving Repr

structure Facts where
  schemaVersion : Int            -- const schemaVersion
  looksObjs : List Obj           -- objects schemaLooksLikeV1 requires (all of them)
  anyObjs : List Obj             -- objects schemaHasAnyV1Objects looks for (any of them)
  migrations : List Mig          -- loadMigrations(): sorted, validated 1..n
  prepared : List Obj            -- tables referenced by the statements prepareStatements prepares
  txMigration : Bool             -- applyMigration: script and version stamp run on one `tx` (Begin … Commit,
                                 -- Rollback on error) rather than statement by statement on the handle
deriving Repr

structure Db (ρ : Type) where
  uv : Int                               -- PRAGMA user_version (signed 32 bit in SQLite)
  tab : Obj → Option (List ρ)
  /-- a foreign object of the *other* kind (an index for a v1 table name, a table for the v1 index
  name) occupies this name.  SQLite never lets `clash o` and `tab o ≠ none` hold together; the
  functions below look at `tab` first, as `sqlite3StartTable` / `sqlite3CreateIndex` do. -/
  clash : Obj → Bool := fun _ => false

inductive Outcome where
  | ok | refuse
deriving DecidableEq, Repr

variable {ρ : Type}

def upd (f : Obj → Option (List ρ)) (o : Obj) (v : Option (List ρ)) : Obj → Option (List ρ) :=
  fun o' => if o' = o then v else f o'

def present (db : Db ρ) (o : Obj) : Bool := (db.tab o).isSome

/-- `schemaLooksLikeV1`: every inspected name exists. -/
def looksLikeV1 (F : Facts) (db : Db ρ) : Bool := F.looksObjs.all (present db)

/-- `schemaHasAnyV1Objects`: some inspected name exists. -/
def hasAnyV1 (F : Facts) (db : Db ρ) : Bool := F.anyObjs.any (present db)

/-- one `CREATE [IF NOT EXISTS]` statement; `none` = SQL error: "already exists" (same kind, no
`IF NOT EXISTS`) or "there is already an index/a table named …" (other kind, always an error) -/
def create (db : Db ρ) (c : Obj × Bool) : Option (Db ρ) :=
  if present db c.1 then (if c.2 then some db else none)
  else if db.clash c.1 then none
  else some { db with tab := upd db.tab c.1 (some []) }

/-- a multi-statement script executed statement by statement: `(true, db')` when every statement
succeeded, `(false, db')` with the state reached *when the failing statement was hit* otherwise. -/
def execScript : List (Obj × Bool) → Db ρ → Bool × Db ρ
  | [], db => (true, db)
  | c :: cs, db => match create db c with
    | none => (false, db)
    | some db' => execScript cs db'

/-- `applyMigration`: `(true, db')` = script ran and `user_version` stamped.  On an error the result
is the database as it is left behind: with `txMigration` the script and the stamp run on one
transaction that is rolled back, so nothing of the partial script survives; without it every statement
that succeeded before the error has been committed on its own. -/
def applyMigration (F : Facts) (db : Db ρ) (m : Mig) : Bool × Db ρ :=
  match execScript m.creates db with
  | (true, db') => (true, { db' with uv := m.version })
  | (false, db') => (false, if F.txMigration then db else db')

/-- the migration loop of `migrate`; `uv` is the *local variable* of the Go code (it is not refreshed
inside the loop). -/
def runMigrations (F : Facts) (uv : Int) : List Mig → Db ρ → Outcome × Db ρ
  | [], db => (.ok, db)
  | m :: ms, db =>
    if m.version ≤ uv then runMigrations F uv ms db
    else match applyMigration F db m with
      | (false, db') => (.refuse, db')
      | (true, db') => runMigrations F uv ms db'

def latest (F : Facts) : Int :=
  match F.migrations.getLast? with
  | some m => m.version
  | none => 0

/-- `migrate(db)`; the second component is the database as it is left on disk. -/
def migrate (F : Facts) (db : Db ρ) : Outcome × Db ρ :=
  if db.uv = latest F then (.ok, db)
  else if db.uv > latest F then (.refuse, db)
  else if db.uv = 0 then
    if looksLikeV1 F db then
      -- legacy: `setUserVersion(db, schemaVersion)` outside any transaction, then the loop with uv = schemaVersion
      runMigrations F F.schemaVersion F.migrations { db with uv := F.schemaVersion }
    else if hasAnyV1 F db then (.refuse, db)
    else runMigrations F 0 F.migrations db
  else runMigrations F db.uv F.migrations db

/-- `prepareStatements` fails iff a referenced table does not exist. -/
def prepare (F : Facts) (db : Db ρ) : Bool := F.prepared.all (present db)

/-- `New`: migrate, then prepare; nothing is rolled back when prepare fails. -/
def openDb (F : Facts) (db : Db ρ) : Outcome × Db ρ :=
  match migrate F db with
  | (.refuse, db') => (.refuse, db')
  | (.ok, db') => if prepare F db' then (.ok, db') else (.refuse, db')

/-! executable helpers for the driver -/
def maskOf (db : Db ρ) : Nat :=
  (Obj.all.zipIdx.map fun (o, i) => if present db o then 2 ^ i else 0).sum

def objIdx : Obj → Nat
  | .keyTrackers => 0 | .simpleEntries => 1 | .prefixEntries => 2 | .leaseEntries => 3 | .idxHash => 4

def bit (mask i : Nat) : Bool := mask / 2 ^ i % 2 = 1

/-- `coll` bit i = a foreign object of the other kind carries the name of object i -/
def ofMask (uv : Int) (mask : Nat) (rows : List Nat) (coll : Nat := 0) : Db Nat :=
  { uv := uv
    tab := fun o => if bit mask (objIdx o) then some (List.range (rows.getD (objIdx o) 0)) else none
    clash := fun o => bit coll (objIdx o) }

def collOf (db : Db ρ) : Nat :=
  (Obj.all.zipIdx.map fun (o, i) => if db.clash o then 2 ^ i else 0).sum

def rowCounts (db : Db ρ) : List Nat := Obj.tables.map fun o => ((db.tab o).getD []).length

end Specter.C24
