/-! C12 executable model of `MakeSuccListByID` / `MakeSuccListByAddress` (spec/chord/chord.go).

One generic definition over a key function; the two Go functions differ only in the key
(`succ.ID()` vs `succ.Identity().GetAddress()`).  The model mirrors the Go loop state:
`out` = `succList`, `seen` = the keys of the Go map `seen` (a list used as a set). Core Lean only. -/
namespace Specter.C12

variable {α κ : Type} [DecidableEq κ]

/-- The `for _, succ := range successors` loop: break when full, skip nil / seen, else record + append. -/
def loop (key : α → κ) (maxLen : Nat) : List (Option α) → List α → List κ → List α
  | [], out, _ => out
  | c :: cs, out, seen =>
    if out.length ≥ maxLen then out            -- `if len(succList) >= maxLen { break }`
    else match c with
      | none => loop key maxLen cs out seen     -- `succ == nil` → continue
      | some s =>
        if key s ∈ seen then loop key maxLen cs out seen      -- `seen[key]` → continue
        else loop key maxLen cs (out ++ [s]) (key s :: seen)  -- `seen[key] = true; append`

/-- `succList := []VNode{immediate}; seen[key(immediate)] = true; loop`. -/
def makeSuccList (key : α → κ) (immediate : α) (cands : List (Option α)) (maxLen : Nat) : List α :=
  loop key maxLen cands [immediate] [key immediate]

/-- Fake node as the harness builds them: id, address, and a tag standing for pointer identity. -/
structure Node where
  id : Nat
  addr : String
  tag : Nat
deriving DecidableEq, Repr

def byID (imm : Node) (cands : List (Option Node)) (maxLen : Nat) : List Node :=
  makeSuccList Node.id imm cands maxLen

def byAddress (imm : Node) (cands : List (Option Node)) (maxLen : Nat) : List Node :=
  makeSuccList Node.addr imm cands maxLen

/-- Executable spec predicate taken from the property statement (independent of `loop`):
starts with `imm`, keys pairwise distinct, the rest is a subsequence of the non-nil candidates,
length within `maxLen`. -/
def wellFormed (key : Node → κ) (imm : Node) (cands : List (Option Node)) (maxLen : Nat)
    (out : List Node) : Option String :=
  match out with
  | [] => some "empty"
  | h :: t =>
    if h ≠ imm then some "head-not-immediate"
    else if ¬ (out.map key).Nodup then some "duplicate-key"
    else if ¬ t.isSublist (cands.filterMap id) then some "order-or-foreign-entry"
    else if out.length > maxLen then some "too-long"
    else none

end Specter.C12
