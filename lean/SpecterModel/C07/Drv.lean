import SpecterModel.Util
import SpecterModel.C07.Props
/-!
C07 driver. Line: `fault <scenario> <rpc> <mode> <reached> n=<k> => stuck=<ids|-> lost=<keys|-> subject=<State>`.
SPEC (the property): if the faulted call was reached, no remaining node may be stuck and no acknowledged
key may be unreachable. DIFF: the outcome class differs from the proved table `expectedSafe`.
-/
namespace Specter.C07
open Specter.Util

def field (rhs name : String) : String :=
  match (rhs.splitOn " ").find? (·.startsWith (name ++ "=")) with
  | some t => (t.drop (name.length + 1)).toString
  | none => "?"

def step (_ : Unit) (toks : List String) (rhs : String) : Unit × Verdict :=
  match toks with
  | ["reset"] => ((), .ok)
  | ["fault", sc, rpc, mode, reached, _n] =>
    let stuck := field rhs "stuck"
    let lost := field rhs "lost"
    if reached != "true" then ((), .ok)            -- the call was never made in this run: nothing injected
    else if stuck != "-" || lost != "-" then
      ((), .spec s!"after {sc} with {rpc} {mode}: stuck nodes [{stuck}], unreachable acknowledged keys [{lost}]")
    else if !expectedSafe sc rpc mode then
      ((), .diff s!"model table says this tuple ends with a permanently locked node")
    else ((), .ok)
  | _ => ((), .bad "unknown op")

def main : IO Unit := runLoop () step

end Specter.C07
