import SpecterModel.C20.Drv

def main : IO Unit := Specter.C20.main
