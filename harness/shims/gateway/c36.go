//go:build verif

package gateway

import (
	"context"
	"net/http"

	"go.miragespace.co/specter/spec/tun"

	"go.uber.org/zap"
)

func verifGateway(ts tun.Server, roots []string, port int) *Gateway {
	g := &Gateway{GatewayConfig: GatewayConfig{
		TunnelServer: ts,
		RootDomains:  roots,
		GatewayPort:  port,
		Logger:       zap.NewNop(),
		Options:      Options{TransportBufferSize: 4096, ProxyBufferSize: 4096},
	}}
	g.altHeaders = generateAltHeaders(port)
	return g
}

// VerifErrorHandler runs the real (*Gateway).errorHandler (the ReverseProxy ErrorHandler).
func VerifErrorHandler(w http.ResponseWriter, r *http.Request, e error) {
	verifGateway(nil, []string{"example.com"}, 443).errorHandler(w, r, e)
}

// VerifForwardTCP runs the real (*Gateway).forwardTCP.
func VerifForwardTCP(ctx context.Context, ts tun.Server, host, remote string, conn DeadlineReadWriteCloser) error {
	return verifGateway(ts, []string{"example.com"}, 443).forwardTCP(ctx, host, remote, conn)
}

// VerifHTTPConnect runs the real (*Gateway).httpConnect.
func VerifHTTPConnect(ts tun.Server, w http.ResponseWriter, r *http.Request) {
	verifGateway(ts, []string{"example.com"}, 443).httpConnect(w, r)
}
