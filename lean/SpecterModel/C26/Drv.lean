import SpecterModel.Util
import SpecterModel.C26.Model
import SpecterModel.C26.Conc
/-!
C26 line-protocol driver (stateful; `reset` starts a fresh DHT).

  dest <addr> <chord> <tunnel>                      => ok            a destination record exists for server <addr>
  gen <tok> <id> <claim>                            => <hostname> D  GenerateHostname by the caller (name chosen by the implementation)
  bind <tok> <id> <host>                            => ok D          outcome of a successful AcmeValidate (custom binding + registration)
  pub <tok> <id> <host> <servers> <failing slots> <claim>   => <code> <published> D
  unpub <tok> <id> <host> <failing slots> <claim>           => <code> - D
  rel <tok> <id> <host> <failing slots> <customDelFails 0|1> <claim> => <code> - D
  hold <tok> <0|1>                                  => ok D          a concurrent call holds / drops the client's lease
<tok> <id> = the identity on the caller's verified certificate; <claim> = the identity the peer claims on the stream
(`StreamDelegate.Identity`): `-` (none) | `<id>|<address>|<rendezvous 0/1>` — honest, or spoofed (own Id with another
client's address, another client's whole identity, …).
Concurrent requests (one scenario = `creq`* `cs`* `cend`; every KV call of an in-flight request is one atomic step):
  creq <tid> pub <tok> <id> <host> <servers> <failing slots> <claim>          => ok   request <tid> enters PublishTunnel
  creq <tid> unpub <tok> <id> <host> <failing slots> <claim>                  => ok
  creq <tid> rel <tok> <id> <host> <failing slots> <customDelFails> <claim>   => ok
  cs <tid> <kv call>                                => <result> D    request <tid> executed this KV call (granted by the scheduler):
        acquire <tok> | unlock <tok> | contains <tok> <host> | get <addr> | put <host> <slot> | del <host> <slot>
        | premove <tok> <host> | delcustom <host>;  result: ok | conflict | yes | no | found | missing | fail
  cend                                              => <outs> D      all requests have returned; outs = `;`-joined `<tid>:<code>:<published>`
D = `<routes> <owns> <custom>` = the implementation's DHT after the call, each a `;`-joined sorted list (`-` if empty):
  route `h|k|tok|id|chord|tunnel|hostname|rdv` (tok/id/rdv = Address/Id/Rendezvous of the route's ClientDestination),
  owns `tok|h`, custom `h|tok|id`.
servers: `-` | comma list of `n` (nil node) / `a<addr>`; failing slots: `-` | comma list of slot numbers.
Strings are from [a-z0-9:.-] (no separators).
-/
namespace Specter.C26
open Specter.Util

/-- a concurrent request as announced by the harness. -/
structure CReq where
  tid : Nat
  op : String
  tok : String
  id : String
  h : String
  servers : List (Option String)
  failing : List Nat
  cf : Bool
  claim : String := "-"

structure DSt where
  st : St
  toks : List String := []
  hosts : List String := []
  ids : List (String × Nat) := []
  prevRoutes : List String := []
  prevOwns : List String := []
  pool : List (Nat × Thread) := []      -- in-flight concurrent requests (model side)
  reqs : List CReq := []                -- the same requests as the harness announced them

def dinit : DSt := { st := init (fun _ => none) }

def insertS (x : String) : List String → List String
  | [] => [x]
  | y :: ys => if x ≤ y then x :: y :: ys else y :: insertS x ys
def sortS (xs : List String) : List String := xs.foldr insertS []

def joinL (xs : List String) : String := if xs.isEmpty then "-" else ";".intercalate xs
def splitL (s : String) : List String := if s = "-" then [] else s.splitOn ";"

def addU (x : String) (l : List String) : List String := if l.contains x then l else x :: l

def renderRoutes (d : DSt) : List String :=
  sortS (d.hosts.flatMap fun h => (List.range 8).filterMap fun k =>
    (d.st.route h k).map fun r =>
      let n := r.client.node
      s!"{h}|{k}|{n.address}|{n.id}|{r.chord}|{r.tunnel}|{r.hostname}|{if n.rendezvous then "1" else "0"}")
def renderOwns (d : DSt) : List String :=
  sortS (d.toks.flatMap fun t => d.hosts.filterMap fun h => if d.st.owns t h then some s!"{t}|{h}" else none)
def renderCustom (d : DSt) : List String :=
  sortS (d.hosts.filterMap fun h => (d.st.custom h).map fun c => s!"{h}|{c.token}|{c.id}")
def digest (d : DSt) : String := s!"{joinL (renderRoutes d)} {joinL (renderOwns d)} {joinL (renderCustom d)}"

def codeOf : Out → String
  | .ok _ => "ok" | .invalidArgument => "invalid_argument" | .permissionDenied => "permission_denied"
  | .internal => "internal" | .unavailable => "unavailable" | .conflict => "conflict"
def pubOf : Out → String
  | .ok p => if p.isEmpty then "-" else ",".intercalate p
  | _ => "-"

def parseServers (t : String) : Option (List (Option String)) :=
  if t = "-" then some [] else (t.splitOn ",").mapM fun x =>
    if x = "n" then some none else if x.startsWith "a" then some (some (x.drop 1).toString) else none

/-- the identity claimed on the stream: `-` | `id|address|rdv`. -/
def parseClaim (t : String) : Option (Option Ident) :=
  if t = "-" then some none else
  match t.splitOn "|" with
  | [i, a, r] => if r = "0" ∨ r = "1" then i.toNat?.map fun n => some ⟨n, a, r = "1"⟩ else none
  | _ => none

def parseSlots (t : String) : Option (List Nat) :=
  if t = "-" then some [] else (t.splitOn ",").mapM String.toNat?

def faultsOf (slots : List Nat) (customFail : Bool) : Faults :=
  { failRoute := fun _ k => slots.contains k, failCustomDel := fun _ => customFail }

def field (s : String) (i : Nat) : String := (s.splitOn "|").getD i ""
def field2 (s : String) (i : Nat) : String := (s.splitOn ":").getD i ""

/-- the route names the identity on the caller's certificate: Address = token, Id, and a rendezvous (client) node. -/
def namesVerified (tok id : String) (r : String) : Bool := field r 2 = tok && field r 3 = id && field r 7 = "1"

/-- a successful publish: 1..3 distinct servers, and slot i+1 holds the caller's route to requested server i
(the route names the caller's VERIFIED identity `tok`/`id`, whatever the caller claimed on the stream). -/
def pubSlots (tok id h : String) (servers : List (Option String)) (failing : List Nat)
    (dest : String → Option Dest) (routes : List String) : Option String :=
  let req := (servers.filterMap (fun x => x)).eraseDups
  if req.length > 3 ∨ req.length < 1 then some "publish accepted a bad server list" else
  let bad := (List.range req.length).find? fun i =>
    !(failing.contains (i + 1)) &&
    match dest (req.getD i "") with
    | some d => !(routes.contains s!"{h}|{i+1}|{tok}|{id}|{d.chord}|{d.tunnel}|{h}|1")
    | none => true
  match bad with
  | some i =>
    match routes.find? (fun r => field r 0 = h && field r 1 = toString (i + 1)) with
    | some r =>
      if !(namesVerified tok id r) then
        some s!"slot {i+1} holds route {r} naming client address={field r 2} id={field r 3} rendezvous={field r 7} instead of the caller's verified identity address={tok} id={id} rendezvous=1"
      else some s!"slot {i+1} does not hold the caller's route to the requested server"
    | none => some s!"slot {i+1} does not hold the caller's route to the requested server"
  | none => none

/-- statement-level oracle on the IMPLEMENTATION's own before/after digests. -/
def specCheck (op tok id h : String) (servers : List (Option String)) (failing : List Nat) (customFail : Bool)
    (dest : String → Option Dest) (prevRoutes prevOwns : List String)
    (code : String) (routes owns custom : List String) (claim : String := "-") : Option String :=
  let owned := prevOwns.contains s!"{tok}|{h}"
  -- a route that a publish stored names the identity on the caller's certificate, not one claimed on the stream
  match (if op = "pub" then routes.find? (fun r => !(prevRoutes.contains r) && field r 0 = h && !(namesVerified tok id r)) else none) with
  | some r => some s!"publish by the client with verified identity address={tok} id={id} rendezvous=1 (claiming {claim} on the stream) stored route {r}, which names client address={field r 2} id={field r 3} rendezvous={field r 7}"
  | none =>
  -- every stored route names a client to whom its hostname is registered
  match routes.find? (fun r => !(owns.contains s!"{field r 2}|{field r 0}") || field r 6 ≠ field r 0) with
  | some r => some s!"route {r} does not point to an owner of its hostname"
  | none =>
  -- other hostnames' routes and other clients' registrations are untouched
  if routes.filter (fun r => field r 0 ≠ h) ≠ prevRoutes.filter (fun r => field r 0 ≠ h) then
    some "routes of another hostname changed" else
  if owns.filter (fun o => field o 0 ≠ tok) ≠ prevOwns.filter (fun o => field o 0 ≠ tok) then
    some "registrations of another client changed" else
  if code = "ok" ∧ !owned then some s!"{op} succeeded for a hostname not registered to the caller" else
  if !owned ∧ (routes ≠ prevRoutes ∨ owns ≠ prevOwns) then some s!"refused {op} changed the DHT" else
  if op = "pub" ∧ code = "ok" then pubSlots tok id h servers failing dest routes
  else if op = "rel" ∧ code = "ok" then
    if routes.any (fun r => field r 0 = h) then some "release left routes behind" else
    if owns.contains s!"{tok}|{h}" then some "release left the registration behind" else
    if !customFail ∧ custom.any (fun c => field c 0 = h) then some "release left the custom-hostname binding behind" else none
  else if op = "unpub" ∧ code = "ok" then
    if routes.any (fun r => field r 0 = h) then some "unpublish left routes behind" else none
  else none

def finish (d : DSt) (st' : St) (out : Out) (rhs : String) (toks : List String)
    (spec : String → List String → List String → List String → Option String) : DSt × Verdict :=
  let d' := { d with st := st' }
  match rhs.splitOn " " with
  | [code, pub, rts, own, cus] =>
    let d'' := { d' with prevRoutes := splitL rts, prevOwns := splitL own }
    match spec code (splitL rts) (splitL own) (splitL cus) with
    | some why => (d'', .spec why)
    | none =>
      let m := s!"{codeOf out} {pubOf out} {digest d'}"
      let _ := toks
      if m ≠ s!"{code} {pub} {rts} {own} {cus}" then (d'', .diff m) else (d'', .ok)
  | _ => (d', .bad "rhs shape")

/-! ## concurrent requests -/

def parseCall : List String → Option KvCall
  | ["acquire", t] => some (.acquire t)
  | ["unlock", t] => some (.unlock t)
  | ["contains", t, h] => some (.contains t h)
  | ["get", a] => some (.get a)
  | ["put", h, k] => k.toNat?.map (.put h)
  | ["del", h, k] => k.toNat?.map (.del h)
  | ["premove", t, h] => some (.premove t h)
  | ["delcustom", h] => some (.delcustom h)
  | _ => none

def callStr : KvCall → String
  | .acquire t => s!"acquire {t}" | .unlock t => s!"unlock {t}" | .contains t h => s!"contains {t} {h}"
  | .get a => s!"get {a}" | .put h k => s!"put {h} {k}" | .del h k => s!"del {h} {k}"
  | .premove t h => s!"premove {t} {h}" | .delcustom h => s!"delcustom {h}"

def resStr : Res → String
  | .ok => "ok" | .conflict => "conflict" | .yes => "yes" | .no => "no"
  | .found => "found" | .missing => "missing" | .fail => "fail"

def outStr (tid : Nat) (t : Thread) : String :=
  match t.pc with
  | .done o => s!"{tid}:{codeOf o}:{pubOf o}"
  | _ => s!"{tid}:running:-"

/-- statement-level oracle for a finished concurrent scenario, on the IMPLEMENTATION's own digests before the first
and after the last call and on the codes it returned. Nothing registers a hostname inside a scenario. -/
def cspec (reqs : List CReq) (dest : String → Option Dest) (prevRoutes prevOwns : List String)
    (outs : List String) (routes owns custom : List String) : Option String :=
  let code (q : CReq) : String := ((outs.find? (fun o => field2 o 0 = toString q.tid)).map (fun o => field2 o 1)).getD "?"
  let owner (q : CReq) : Bool := prevOwns.contains s!"{q.tok}|{q.h}"
  let summary := ", ".intercalate (reqs.map fun q => s!"{q.op} {q.tok} {q.h}: {code q}")
  -- a route stored by these calls names the certificate identity of one of the publish requests for its hostname
  match routes.find? (fun r => !(prevRoutes.contains r) &&
      !(reqs.any fun q => q.op = "pub" && q.h = field r 0 && namesVerified q.tok q.id r)) with
  | some r => some s!"all concurrent calls returned ({summary}) and the stored route {r} names client address={field r 2} id={field r 3} rendezvous={field r 7}, which is not the verified identity of any publish request for its hostname (claimed on the streams: {", ".intercalate (reqs.map fun q => q.claim)})"
  | none =>
  -- once every call has returned, every stored route names a client to whom its hostname is registered
  match routes.find? (fun r => !(owns.contains s!"{field r 2}|{field r 0}") || field r 6 ≠ field r 0) with
  | some r => some s!"all concurrent calls returned ({summary}) and route {r} is published although its hostname is not registered to the client it names"
  | none =>
  match reqs.find? (fun q => code q = "ok" && !(owner q)) with
  | some q => some s!"{q.op} succeeded for a hostname not registered to the caller"
  | none =>
  let addressed := (reqs.filter owner).map (·.h)
  if routes.filter (fun r => !(addressed.contains (field r 0))) ≠ prevRoutes.filter (fun r => !(addressed.contains (field r 0))) then
    some "routes of a hostname that none of its owners addressed changed" else
  let touched := (reqs.filter owner).map fun q => s!"{q.tok}|{q.h}"
  if owns.filter (fun o => !(touched.contains o)) ≠ prevOwns.filter (fun o => !(touched.contains o)) then
    some "registrations that their owner did not address changed" else
  if owns.any (fun o => !(prevOwns.contains o)) then some "a hostname got registered by publish/unpublish/release" else
  match reqs.find? (fun q => q.op = "rel" && code q = "ok" &&
      (owns.contains s!"{q.tok}|{q.h}" || routes.any (fun r => field r 0 = q.h && field r 2 = q.tok)
        || (!q.cf && custom.any (fun c => field c 0 = q.h)))) with
  | some q => some s!"release of {q.h} returned success and left its registration, routes or custom-hostname binding behind"
  | none =>
  -- a successful request that was the only effective one on its hostname behaves as if it ran alone
  -- (another owner's request on the hostname that was not refused outright may have deleted or written some slots,
  --  even when it finally reported a KV failure)
  let lone (q : CReq) : Bool := code q = "ok" && !(reqs.any fun q' => q'.tid ≠ q.tid && q'.h = q.h && owner q' &&
    code q' ≠ "permission_denied" && code q' ≠ "invalid_argument")
  match reqs.findSome? (fun q => if q.op = "pub" && lone q then pubSlots q.tok q.id q.h q.servers q.failing dest routes else none) with
  | some why => some why
  | none =>
  match reqs.find? (fun q => q.op = "unpub" && lone q && routes.any (fun r => field r 0 = q.h)) with
  | some _ => some "unpublish left routes behind"
  | none =>
  -- a successful publish overlapping only successful unpublish/release requests of the hostname: the calls are
  -- atomic, so either the publish came last (its routes are all there) or the hostname has no routes
  let refused (q : CReq) : Bool := !(owner q) || code q = "permission_denied" || code q = "invalid_argument"
  match reqs.find? (fun q => q.op = "pub" && code q = "ok" && !(lone q) &&
      (reqs.all fun q' => q'.tid = q.tid || q'.h ≠ q.h || refused q' || ((q'.op = "unpub" || q'.op = "rel") && code q' = "ok")) &&
      routes.any (fun r => field r 0 = q.h) && (pubSlots q.tok q.id q.h q.servers q.failing dest routes).isSome) with
  | some q => some s!"publish and unpublish/release of {q.h} both returned success and its routes are neither removed nor the published ones"
  | none => none

def spawnReq (d : DSt) (q : CReq) (n : Nat) (cl : Option Ident) : DSt :=
  let kind : Kind := if q.op = "pub" then .publish q.servers else if q.op = "unpub" then .unpublish else .release
  let t := spawnBy kind (faultsOf q.failing q.cf) ⟨⟨q.tok, n⟩, cl⟩ q.h
  { d with toks := addU q.tok d.toks, hosts := addU q.h d.hosts,
           pool := (d.pool.filter (fun x => x.1 ≠ q.tid)) ++ [(q.tid, t)], reqs := (d.reqs.filter (fun x => x.tid ≠ q.tid)) ++ [q] }

def cstepLine (d : DSt) (tid : Nat) (call : KvCall) (rhs : String) : DSt × Verdict :=
  match d.pool.find? (fun x => x.1 == tid) with
  | none => (d, .bad "cs: unknown request")
  | some (_, t) =>
    let calls := nextCalls t
    match calls.idxOf? call with
    | none =>
      (d, .diff s!"request {tid} called `{callStr call}`; the model expects one of [{", ".intercalate (calls.map callStr)}]")
    | some j =>
      let (st', t', res) := tstep d.st t j
      let d' := { d with st := st', pool := d.pool.map fun x => if x.1 == tid then (tid, t') else x }
      let m := s!"{(res.map resStr).getD "none"} {digest d'}"
      if m ≠ rhs then (d', .diff m) else (d', .ok)

def cendLine (d : DSt) (rhs : String) : DSt × Verdict :=
  match rhs.splitOn " " with
  | [outs, rts, own, cus] =>
    let d' := { d with pool := [], reqs := [], prevRoutes := splitL rts, prevOwns := splitL own }
    match cspec d.reqs d.st.dest d.prevRoutes d.prevOwns (splitL outs) (splitL rts) (splitL own) (splitL cus) with
    | some why => (d', .spec why)
    | none =>
      let m := s!"{joinL (d.pool.map fun x => outStr x.1 x.2)} {digest d}"
      if m ≠ rhs then (d', .diff m) else (d', .ok)
  | _ => (d, .bad "cend rhs shape")

def dstep (d : DSt) (toks : List String) (rhs : String) : DSt × Verdict :=
  match toks with
  | ["reset"] => (dinit, .ok)
  | ["dest", a, c, t] =>
    let st := d.st
    ({ d with st := { st with dest := fun x => if x = a then some ⟨c, t⟩ else st.dest x } }, .ok)
  | ["hold", tok, b] =>
    let (st', out) := Specter.C26.step d.st (.hold tok (b == "1"))
    finish { d with toks := addU tok d.toks } st' out ("ok - " ++ (rhs.drop 3).toString) toks (fun _ _ _ _ => none)
  | ["gen", tok, id, claim] =>
    match id.toNat?, parseClaim claim, rhs.splitOn " " with
    | some n, some cl, [h, rts, own, cus] =>
      let d1 := { d with toks := addU tok d.toks, hosts := addU h d.hosts }
      let (st', out) := stepReq d1.st (.generate ⟨⟨tok, n⟩, cl⟩ h)
      finish d1 st' out s!"ok - {rts} {own} {cus}" toks
        (fun code r o cu => specCheck "gen" tok id h [] [] false d.st.dest d.prevRoutes (addU s!"{tok}|{h}" d.prevOwns) code r o cu claim)
    | _, _, _ => (d, .bad "gen")
  | ["bind", tok, id, h] =>
    match id.toNat? with
    | some n =>
      let d1 := { d with toks := addU tok d.toks, hosts := addU h d.hosts }
      let (st', out) := Specter.C26.step d1.st (.bindCustom ⟨tok, n⟩ h)
      finish d1 st' out ("ok - " ++ (rhs.drop 3).toString) toks (fun _ _ _ _ => none)
    | none => (d, .bad "bind")
  | ["pub", tok, id, h, servers, failing, claim] =>
    match id.toNat?, parseServers servers, parseSlots failing, parseClaim claim with
    | some n, some ss, some fs, some cl =>
      let d1 := { d with toks := addU tok d.toks, hosts := addU h d.hosts }
      let (st', out) := stepReq d1.st (.publish (faultsOf fs false) ⟨⟨tok, n⟩, cl⟩ h ss)
      finish d1 st' out rhs toks (fun code r o cu => specCheck "pub" tok id h ss fs false d.st.dest d.prevRoutes d.prevOwns code r o cu claim)
    | _, _, _, _ => (d, .bad "pub")
  | ["unpub", tok, id, h, failing, claim] =>
    match id.toNat?, parseSlots failing, parseClaim claim with
    | some n, some fs, some cl =>
      let d1 := { d with toks := addU tok d.toks, hosts := addU h d.hosts }
      let (st', out) := stepReq d1.st (.unpublish (faultsOf fs false) ⟨⟨tok, n⟩, cl⟩ h)
      finish d1 st' out rhs toks (fun code r o cu => specCheck "unpub" tok id h [] fs false d.st.dest d.prevRoutes d.prevOwns code r o cu claim)
    | _, _, _ => (d, .bad "unpub")
  | ["rel", tok, id, h, failing, cf, claim] =>
    match id.toNat?, parseSlots failing, parseClaim claim with
    | some n, some fs, some cl =>
      let d1 := { d with toks := addU tok d.toks, hosts := addU h d.hosts }
      let (st', out) := stepReq d1.st (.release (faultsOf fs (cf == "1")) ⟨⟨tok, n⟩, cl⟩ h)
      finish d1 st' out rhs toks (fun code r o cu => specCheck "rel" tok id h [] fs (cf == "1") d.st.dest d.prevRoutes d.prevOwns code r o cu claim)
    | _, _, _ => (d, .bad "rel")
  | ["creq", tid, "pub", tok, id, h, servers, failing, claim] =>
    match tid.toNat?, id.toNat?, parseServers servers, parseSlots failing, parseClaim claim with
    | some i, some n, some ss, some fs, some cl => (spawnReq d ⟨i, "pub", tok, id, h, ss, fs, false, claim⟩ n cl, .ok)
    | _, _, _, _, _ => (d, .bad "creq pub")
  | ["creq", tid, "unpub", tok, id, h, failing, claim] =>
    match tid.toNat?, id.toNat?, parseSlots failing, parseClaim claim with
    | some i, some n, some fs, some cl => (spawnReq d ⟨i, "unpub", tok, id, h, [], fs, false, claim⟩ n cl, .ok)
    | _, _, _, _ => (d, .bad "creq unpub")
  | ["creq", tid, "rel", tok, id, h, failing, cf, claim] =>
    match tid.toNat?, id.toNat?, parseSlots failing, parseClaim claim with
    | some i, some n, some fs, some cl => (spawnReq d ⟨i, "rel", tok, id, h, [], fs, cf == "1", claim⟩ n cl, .ok)
    | _, _, _, _ => (d, .bad "creq rel")
  | "cs" :: tid :: call =>
    match tid.toNat?, parseCall call with
    | some i, some c => cstepLine d i c rhs
    | _, _ => (d, .diff s!"request {tid} issued a KV call outside the model: {" ".intercalate call}")
  | ["cend"] => cendLine d rhs
  | _ => (d, .bad "unknown op")

def main : IO Unit := runLoop dinit dstep

end Specter.C26
