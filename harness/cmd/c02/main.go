// C02: random serial histories of create/join/leave over real LocalNodes with explicit background-task
// interleavings (stabilize / fixFinger / checkPredecessor issued in seeded random order, including
// in the middle of a paused join), then repair rounds until nothing changes; the driver checks the
// implementation's pointers against the true ring order at every quiescent point.
// Then (upd.go): overlapping stabilize runs on one node publishing their successor lists, the accesses of the
// current source executed under every interleaving of two runs (and sampled ones of three and four), followed by
// one further run with the true list — judged by the driver: the true list must be published afterwards.
package main

import (
	"strings"

	"verif/harness/hlib"
	"verif/harness/ringh"
)

func main() {
	hlib.Guarded(func(run *hlib.Run) {
		run.Rule = "histories of create/join/leave over 2..N real LocalNodes with adversarial ids, background tasks (stabilize, fixFinger, checkPredecessor) issued explicitly in seeded random order between and inside membership changes (paused joins), then full repair rounds until a fixpoint; non-trivial = distinct history with at least one join and one leave; quiescent points judged: predecessor, successor list, all 48 fingers; plus upd = the successor-list publication of the current stabilize source (extracted accesses to succListHash/successors/successorsMu) under every interleaving of 2 overlapping runs x every combination of views, sampled (thorough: exhaustive) interleavings of 3..4 runs and random pick sequences, each followed by one further run with the true list, which must then be the published one"
		rng := hlib.NewRng(run.Seed)
		if run.Replay != "" {
			s := ringh.NewSession(run, rng)
			for _, t := range run.ReplayLines() {
				switch t[0] {
				case "reset":
				case "upd", "updprog":
					updReplay(run, t)
				case "quiet":
					s.Quiet()
				default:
					s.Do(t...)
				}
			}
			return
		}
		cases, maxN := 10, 8
		if run.Thorough() {
			cases, maxN = 60, 24
		}
		// directed case: a ring large enough that far fingers point beyond the successor list; a member that is
		// only a finger (not a list entry) of other members leaves; after the repair rounds every finger of every
		// member must name a live owner again (judged at `quiet`), and lookups from every member must succeed
		for d := 0; d < 2; d++ {
			n := 10 + rng.Intn(5)
			s := ringh.NewSession(run, rng)
			base := rng.U64() % ringh.M
			var ids []uint64
			for i := 0; i < n; i++ {
				ids = append(ids, (base+uint64(i)*(ringh.M/uint64(n))+uint64(rng.Intn(1000)))%ringh.M)
			}
			if d == 1 { // joined in descending order
				for i, j := 0, len(ids)-1; i < j; i, j = i+1, j-1 {
					ids[i], ids[j] = ids[j], ids[i]
				}
			}
			members := s.BuildRing(ids)
			s.Repair(members, 12)
			s.Quiet()
			for k := 0; k < 2 && len(members) > 6 && !s.Dead; k++ {
				l := hlib.Pick(rng, members)
				if s.Do("leave", ringh.U(l)) == "ok" {
					var rest []uint64
					for _, m := range members {
						if m != l {
							rest = append(rest, m)
						}
					}
					members = rest
				}
				s.Repair(members, 12)
				s.Quiet()
				for _, m := range members {
					s.Do("lookup", ringh.U(m), ringh.U((l+1)%ringh.M))
					s.Do("lookup", ringh.U(m), ringh.U((m+ringh.M/2)%ringh.M))
				}
			}
			run.Count("directed:far-leave")
			run.Case(hlib.F("far-leave-%d-%v", d, ids))
		}
		// directed case: a member's predecessor pointer names a LIVE member that is farther away than its true
		// predecessor (a state graceful churn reaches when a joiner was handed a departed predecessor and the next
		// node learnt a farther one first); the true predecessor's stabilize/Notify must displace it
		for d := 0; d < 3; d++ {
			n := 4 + rng.Intn(4)
			s := ringh.NewSession(run, rng)
			members := s.BuildRing(ringh.AdversarialIDs(rng, n))
			if len(members) < 4 {
				continue
			}
			s.Repair(members, 12)
			sorted := append([]uint64{}, members...)
			for i := range sorted {
				for j := i + 1; j < len(sorted); j++ {
					if sorted[j] < sorted[i] {
						sorted[i], sorted[j] = sorted[j], sorted[i]
					}
				}
			}
			i := rng.Intn(len(sorted))
			victim := sorted[i]
			far := sorted[(i+len(sorted)-2-rng.Intn(len(sorted)-3))%len(sorted)]
			if far != victim {
				s.Do("setpred", ringh.U(victim), ringh.U(far))
				s.Repair(members, 12)
				s.Quiet()
				run.Count("directed:farther-live-predecessor")
			}
			run.Case(hlib.F("far-pred-%v-%d-%d", members, victim, far))
		}
		for c := 0; c < cases; c++ {
			n := 2 + rng.Intn(maxN-1)
			s := ringh.NewSession(run, rng)
			ids := ringh.AdversarialIDs(rng, n)
			members := []uint64{}
			pending := append([]uint64{}, ids...)
			for _, id := range ids {
				s.Do("new", ringh.U(id))
			}
			s.Do("create", ringh.U(pending[0]))
			members = append(members, pending[0])
			pending = pending[1:]
			joins, leaves := 0, 0
			randomTask := func() {
				m := hlib.Pick(rng, members)
				s.Do(hlib.Pick(rng, []string{"stabilize", "fixfinger", "checkpred"}), ringh.U(m))
			}
			for step := 0; step < 6*n && !s.Dead; step++ {
				switch x := rng.Intn(100); {
				case x < 35 && len(pending) > 0:
					if rng.Chance(60) {
						s.Repair(members, 3)
					}
					j := pending[0]
					pending = pending[1:]
					if rng.Chance(60) {
						// background tasks of other nodes run while the join is half-way
						if s.Do("joinbegin", ringh.U(j), ringh.U(hlib.Pick(rng, members))) == "ok" {
							// every member runs some of its tasks, in random order, while the join is half-way
							for _, m := range members {
								for _, task := range []string{"stabilize", "checkpred", "fixfinger"} {
									if rng.Chance(60) {
										s.Do(task, ringh.U(m))
									}
								}
							}
							for k := 0; k < rng.Intn(4); k++ {
								randomTask()
							}
							// a member tries to leave while the join is half-way (one attempt of the leave protocol);
							// if the attempt goes through, the rest of Leave is carried out step by step
							if len(members) >= 1 && rng.Chance(50) {
								l := hlib.Pick(rng, members)
								res := s.Do("execleave", ringh.U(l))
								if strings.HasPrefix(res, "ok:") {
									if res != "ok:alone" {
										parts := strings.Split(res, ":")
										s.Do("finish", parts[1], "true", "false")
										s.Do("setstate", ringh.U(l), "Left")
										s.Do("finish", parts[2], "false", "true")
									} else {
										s.Do("setstate", ringh.U(l), "Left")
									}
									var rest []uint64
									for _, m := range members {
										if m != l {
											rest = append(rest, m)
										}
									}
									members = rest
									leaves++
								}
							}
							s.Do("joinend", ringh.U(j))
							members = append(members, j)
							joins++
						}
					} else if s.Do("join", ringh.U(j), ringh.U(hlib.Pick(rng, members))) == "ok" {
						members = append(members, j)
						joins++
					}
				case x < 55 && len(members) > 1:
					s.Repair(members, 3)
					l := hlib.Pick(rng, members)
					if s.Do("leave", ringh.U(l)) == "ok" {
						var rest []uint64
						for _, m := range members {
							if m != l {
								rest = append(rest, m)
							}
						}
						members = rest
						leaves++
					}
				default:
					randomTask()
				}
			}
			if s.Dead {
				run.Count("timed-out-session")
				s.Revive() // judge the pointers the live members converge to anyway
			}
			rounds := s.Repair(members, 12)
			run.Count(hlib.F("repair-rounds:%d", rounds))
			run.Count(hlib.F("final-members:%d", len(members)))
			s.Quiet()
			key := ""
			if joins > 0 && leaves > 0 {
				key = hlib.F("case-%d-%v", c, ids)
			}
			run.Case(key)
		}
		updCases(run, rng)
	})
}
