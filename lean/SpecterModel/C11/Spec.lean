/-! C11 executable spec of circular intervals on the 2^48 ring (core Lean only). -/
namespace Specter.C11

def M : Nat := 2^48

def dist (a b : Nat) : Nat := (b + M - a) % M

/-- membership in the open circular interval (l, h); full circle minus `l` when `l = h` -/
def inOpen (l t h : Nat) : Prop := 0 < dist l t ∧ (dist l t < dist l h ∨ l = h)

/-- membership in the right-closed circular interval (l, h]; everything when `l = h` -/
def inClosed (l t h : Nat) : Prop := inOpen l t h ∨ t = h

instance (l t h : Nat) : Decidable (inOpen l t h) := by unfold inOpen; infer_instance
instance (l t h : Nat) : Decidable (inClosed l t h) := by unfold inClosed; infer_instance

end Specter.C11
