//go:build verif

package gateway

// VerifExtractHostname runs the real (*Gateway).extractHostname with the given root domains.
func VerifExtractHostname(roots []string, host string) (string, error) {
	g := &Gateway{GatewayConfig: GatewayConfig{RootDomains: roots}}
	return g.extractHostname(host)
}
