import SpecterModel.C09.Props
/-!
# C01 — Lookups on a stable ring return the node responsible for the key

`Stable net`: every live member knows its true predecessor and true successor and every
non-nil finger names a live member (fingers need not be exact — the proof shows they only
have to be members). Then a lookup from ANY member for ANY identifier returns the first
member at or clockwise after the identifier, for every ring size and id layout
(adjacent ids, 0, 2^48-1, wrap-around, keys equal to member ids).
-/
namespace Specter.C01
open Specter.Ring Specter.C09

/-- live member: present and answering lookups -/
def Mem (net : Net) (n : Nat) : Prop := ∃ nd, net.get n = some nd ∧ checkNodeState nd false = none

/-- `o` is the first member at or clockwise after `key` -/
def IsOwner (net : Net) (key o : Nat) : Prop :=
  Mem net o ∧ ∀ m, Mem net m → dist key o ≤ dist key m

structure Stable (net : Net) : Prop where
  lt : ∀ n, Mem net n → n < M
  pred : ∀ n nd, net.get n = some nd → checkNodeState nd false = none →
      ∃ p, nd.pred = some p ∧ Mem net p ∧
        ∀ m, Mem net m → ¬ (0 < dist p m ∧ dist p m < dist p n) ∧ (p = n → m = n)
  succ : ∀ n nd, net.get n = some nd → checkNodeState nd false = none →
      ∃ s, nd.succs.head? = some s ∧ Mem net s ∧
        ∀ m, Mem net m → ¬ (0 < dist n m ∧ dist n m < dist n s) ∧ (s = n → m = n)
  fingers : ∀ n nd, net.get n = some nd → checkNodeState nd false = none →
      ∀ f, some f ∈ nd.fingers → Mem net f

theorem lookup_correct_aux (net : Net) (hs : Stable net) :
    ∀ (d n key : Nat), cw key n = d → Mem net n → key < M →
      ∃ fuel o, findSucc net fuel n key = .found o ∧ IsOwner net key o := by
  intro d
  induction d using Nat.strongRecOn with
  | ind d ih =>
    intro n key hd hn hk
    have hnM := hs.lt n hn
    obtain ⟨nd, hg, hc⟩ := hn
    have hn : Mem net n := ⟨nd, hg, hc⟩
    obtain ⟨p, hp, hpm, hpmin⟩ := hs.pred n nd hg hc
    obtain ⟨s, hsu, hsm, hsmin⟩ := hs.succ n nd hg hc
    have hpM := hs.lt p hpm
    have hsM := hs.lt s hsm
    by_cases c1 : between p key n true = true
    · refine ⟨1, n, findSucc_pred net 0 n key nd hg hc (by simp [inPredRange, hp, c1]), hn, ?_⟩
      intro m hm
      have hmM := hs.lt m hm
      have := hpmin m hm
      rw [between_closed_iff p key n hpM hk hnM] at c1
      have := dist_cases p key hpM hk; have := dist_cases p n hpM hnM
      have := dist_cases p m hpM hmM; have := dist_cases key n hk hnM
      have := dist_cases key m hk hmM; have := M_val
      omega
    · have hpr : inPredRange nd.pred key n = false := by simp [inPredRange, hp, c1]
      by_cases c2 : between n key s true = true
      · refine ⟨1, s, findSucc_succ_found net 0 n key s nd hg hc hpr hsu c2, hsm, ?_⟩
        intro m hm
        have hmM := hs.lt m hm
        have := hsmin m hm
        rw [between_closed_iff n key s hnM hk hsM] at c2
        have := dist_cases n key hnM hk; have := dist_cases n s hnM hsM
        have := dist_cases n m hnM hmM; have := dist_cases key s hk hsM
        have := dist_cases key m hk hmM; have := M_val
        omega
      · -- forwarding hop to a member strictly closer to the key
        have c2' : between n key s true = false := by simpa using c2
        have hfM : ∀ f, some f ∈ nd.fingers → f < M := fun f hf => hs.lt f (hs.fingers n nd hg hc f hf)
        obtain ⟨_, hlt⟩ := hop_decreases n key s nd.fingers hnM hk hsM hfM c2'
        have hcm : Mem net (hop n key s nd.fingers) := by
          rcases hop_cases n key s nd.fingers with h | ⟨hm, _⟩
          · rw [h]; exact hsm
          · exact hs.fingers n nd hg hc _ hm
        obtain ⟨fuel, o, hres, ho⟩ := ih _ (by rw [← hd]; exact hlt) _ key rfl hcm hk
        exact ⟨fuel + 1, o, by rw [findSucc_hop net fuel n key s nd hg hc hpr hsu c2']; exact hres, ho⟩

/-- **C01.** On a stable ring, a lookup from any member for any identifier returns the owner. -/
theorem lookup_correct (net : Net) (hs : Stable net) (n key : Nat) (hn : Mem net n) (hk : key < M) :
    ∃ fuel o, findSucc net fuel n key = .found o ∧ IsOwner net key o :=
  lookup_correct_aux net hs _ n key rfl hn hk

/-- the owner is unique (ids are distinct points of the ring) -/
theorem owner_unique (net : Net) (hlt : ∀ n, Mem net n → n < M) (key o o' : Nat) (hk : key < M)
    (h : IsOwner net key o) (h' : IsOwner net key o') : o = o' := by
  have a := h.2 o' h'.1; have b := h'.2 o h.1
  have hoM := hlt o h.1; have hoM' := hlt o' h'.1
  have := dist_cases key o hk hoM; have := dist_cases key o' hk hoM'; have := M_val
  omega

/-- whatever fuel the lookup is given beyond the needed amount, the answer is the same owner -/
theorem lookup_correct_any_fuel (net : Net) (hs : Stable net) (n key : Nat) (hn : Mem net n) (hk : key < M) :
    ∃ fuel o, IsOwner net key o ∧ ∀ k, findSucc net (fuel + k) n key = .found o := by
  obtain ⟨fuel, o, hres, ho⟩ := lookup_correct net hs n key hn hk
  refine ⟨fuel, o, ho, ?_⟩
  intro k
  induction k with
  | zero => exact hres
  | succ k ih => exact findSucc_fuel_mono net _ n key _ ih (by simp)

end Specter.C01

namespace Specter.C01
open Specter.Ring Specter.C09

/-! ### executable `Stable` (used by the driver to gate the lookup oracle) and its soundness -/

def liveB (nd : Node) : Bool := (checkNodeState nd false).isNone

def memB (net : Net) (n : Nat) : Bool := match net.get n with | some nd => liveB nd | none => false

/-- `m` is not strictly between `a` and `b` going clockwise, and if `a = b` the ring is the single node -/
def noneBetweenB (net : Net) (a b : Nat) : Bool :=
  net.all fun q => !liveB q.2 || memB net q.1 == false ||
    (!(decide (0 < dist a q.1) && decide (dist a q.1 < dist a b)) && (a != b || q.1 == b))

def stableB (net : Net) : Bool :=
  net.all fun q =>
    if memB net q.1 then
      match net.get q.1 with
      | none => false
      | some nd =>
        decide (q.1 < M) &&
        (match nd.pred with
          | some p => memB net p && noneBetweenB net p q.1
          | none => false) &&
        (match nd.succs.head? with
          | some s => memB net s && noneBetweenB net q.1 s
          | none => false) &&
        nd.fingers.all (fun f => match f with | some f => memB net f | none => true)
    else true

theorem memB_iff (net : Net) (n : Nat) : memB net n = true ↔ Mem net n := by
  unfold memB Mem liveB
  cases h : net.get n with
  | none => simp
  | some nd => simp [Option.isNone_iff_eq_none]

theorem noneBetween_sound (net : Net) (a b : Nat) (h : noneBetweenB net a b = true) :
    ∀ m, Mem net m → ¬ (0 < dist a m ∧ dist a m < dist a b) ∧ (a = b → m = b) := by
  intro m hm
  obtain ⟨nd, hg, hc⟩ := hm
  have hmem := get_mem net m nd hg
  unfold noneBetweenB at h
  rw [List.all_eq_true] at h
  have := h _ hmem
  have hl : liveB nd = true := by simp [liveB, hc]
  have hmb : memB net m = true := (memB_iff net m).mpr ⟨nd, hg, hc⟩
  simp [hl, hmb] at this
  obtain ⟨h1, h2⟩ := this
  refine ⟨fun ⟨x, y⟩ => ?_, fun e => ?_⟩
  · rcases h1 with h1 | h1 <;> omega
  · rcases h2 with h2 | h2
    · exact absurd e h2
    · exact h2

theorem stable_of_stableB (net : Net) (h : stableB net = true) : Stable net := by
  unfold stableB at h
  rw [List.all_eq_true] at h
  have key : ∀ n nd, net.get n = some nd → checkNodeState nd false = none →
      n < M ∧
      (∃ p, nd.pred = some p ∧ memB net p = true ∧ noneBetweenB net p n = true) ∧
      (∃ s, nd.succs.head? = some s ∧ memB net s = true ∧ noneBetweenB net n s = true) ∧
      (∀ f, some f ∈ nd.fingers → memB net f = true) := by
    intro n nd hg hc
    have hmem := get_mem net n nd hg
    have hmb : memB net n = true := (memB_iff net n).mpr ⟨nd, hg, hc⟩
    have := h _ hmem
    simp only [hmb, if_true, hg] at this
    simp only [Bool.and_eq_true, decide_eq_true_eq] at this
    obtain ⟨⟨⟨h1, h2⟩, h3⟩, h4⟩ := this
    refine ⟨h1, ?_, ?_, ?_⟩
    · cases hp : nd.pred with
      | none => simp [hp] at h2
      | some p => simp [hp] at h2; exact ⟨p, rfl, h2.1, h2.2⟩
    · cases hs : nd.succs.head? with
      | none => simp [hs] at h3
      | some s => simp [hs] at h3; exact ⟨s, rfl, h3.1, h3.2⟩
    · intro f hf
      rw [List.all_eq_true] at h4
      simpa using h4 _ hf
  constructor
  · intro n ⟨nd, hg, hc⟩; exact (key n nd hg hc).1
  · intro n nd hg hc
    obtain ⟨p, hp, hpm, hnb⟩ := (key n nd hg hc).2.1
    exact ⟨p, hp, (memB_iff net p).mp hpm, noneBetween_sound net p n hnb⟩
  · intro n nd hg hc
    obtain ⟨s, hs, hsm, hnb⟩ := (key n nd hg hc).2.2.1
    refine ⟨s, hs, (memB_iff net s).mp hsm, fun m hm => ?_⟩
    have := noneBetween_sound net n s hnb m hm
    exact ⟨this.1, fun e => by have := this.2 e.symm; omega⟩
  · intro n nd hg hc f hf
    exact (memB_iff net f).mp ((key n nd hg hc).2.2.2 f hf)

/-- non-vacuity: a one-node ring (pred = succ = self, full circle) and a three-node ring with
wrap-around ids (0, 5, 2^48-1), one left node still present, fingers only members — both `Stable`. -/
def ring1 : Net := [(7, { state := .active, pred := some 7, succs := [7], fingers := List.replicate 48 (some 7) })]
def ring3 : Net :=
  [(0, { state := .active, pred := some (2^48-1), succs := [5, 2^48-1, 0], fingers := List.replicate 48 (some 5) }),
   (5, { state := .active, pred := some 0, succs := [2^48-1, 0, 5], fingers := List.replicate 48 (some (2^48-1)) }),
   (9, { state := .left, pred := some 5, succs := [2^48-1] }),
   (2^48-1, { state := .active, pred := some 5, succs := [0, 5, 2^48-1], fingers := List.replicate 48 none })]

example : Stable ring1 := stable_of_stableB _ (by decide)
example : Stable ring3 := stable_of_stableB _ (by decide)
example : findSucc ring3 4 (2^48-1) 3 = .found 5 := by decide
example : findSucc ring1 1 7 12345 = .found 7 := by decide

end Specter.C01

namespace Specter.C01
open Specter.Ring Specter.C09

/-! ### the oracle used by the driver: the member at minimal clockwise distance from the key -/

def liveIds (net : Net) : List Nat := (net.filter (fun q => memB net q.1)).map (·.1)

def argminDist (key : Nat) : Option Nat → List Nat → Option Nat
  | acc, [] => acc
  | none, m :: ms => argminDist key (some m) ms
  | some o, m :: ms => argminDist key (if dist key m < dist key o then some m else some o) ms

def ownerOf (net : Net) (key : Nat) : Option Nat := argminDist key none (liveIds net)

theorem argminDist_spec (key : Nat) : ∀ (ms : List Nat) (acc : Option Nat) (o : Nat),
    argminDist key acc ms = some o →
    (o ∈ ms ∨ acc = some o) ∧ (∀ m ∈ ms, dist key o ≤ dist key m) ∧ (∀ a, acc = some a → dist key o ≤ dist key a) := by
  intro ms
  induction ms with
  | nil => intro acc o h; simp [argminDist] at h; subst h; simp
  | cons m ms ih =>
    intro acc o h
    cases acc with
    | none =>
      simp only [argminDist] at h
      obtain ⟨h1, h2, h3⟩ := ih _ _ h
      refine ⟨?_, ?_, by simp⟩
      · rcases h1 with h1 | h1
        · left; exact List.mem_cons_of_mem _ h1
        · left; simp at h1; subst h1; exact List.mem_cons_self
      · intro x hx; rcases List.mem_cons.mp hx with rfl | hx
        · exact h3 _ rfl
        · exact h2 x hx
    | some a =>
      simp only [argminDist] at h
      obtain ⟨h1, h2, h3⟩ := ih _ _ h
      by_cases c : dist key m < dist key a
      · simp only [c, if_true] at h1 h3
        refine ⟨?_, ?_, ?_⟩
        · rcases h1 with h1 | h1
          · left; exact List.mem_cons_of_mem _ h1
          · left; simp at h1; subst h1; exact List.mem_cons_self
        · intro x hx; rcases List.mem_cons.mp hx with rfl | hx
          · exact h3 _ rfl
          · exact h2 x hx
        · intro a' ha'; simp at ha'; subst ha'; have := h3 _ rfl; omega
      · simp only [c, if_false] at h1 h3
        refine ⟨?_, ?_, ?_⟩
        · rcases h1 with h1 | h1
          · left; exact List.mem_cons_of_mem _ h1
          · right; exact h1
        · intro x hx; rcases List.mem_cons.mp hx with rfl | hx
          · have := h3 _ rfl; omega
          · exact h2 x hx
        · intro a' ha'; simp at ha'; subst ha'; exact h3 _ rfl

theorem mem_liveIds (net : Net) (m : Nat) : m ∈ liveIds net ↔ Mem net m := by
  unfold liveIds
  simp only [List.mem_map, List.mem_filter]
  constructor
  · rintro ⟨q, ⟨_, hq⟩, rfl⟩; exact (memB_iff net q.1).mp hq
  · intro hm
    obtain ⟨nd, hg, hc⟩ := hm
    exact ⟨(m, nd), ⟨get_mem net m nd hg, (memB_iff net m).mpr ⟨nd, hg, hc⟩⟩, rfl⟩

/-- the driver's oracle computes the owner of the specification -/
theorem ownerOf_isOwner (net : Net) (key o : Nat) (h : ownerOf net key = some o) : IsOwner net key o := by
  obtain ⟨h1, h2, _⟩ := argminDist_spec key _ _ _ h
  refine ⟨?_, fun m hm => h2 m ((mem_liveIds net m).mpr hm)⟩
  rcases h1 with h1 | h1
  · exact (mem_liveIds net o).mp h1
  · simp at h1

/-- **C01, as used by the check**: when the executable stability test passes, every lookup of the
model returns exactly what the oracle computes. -/
theorem lookup_eq_oracle (net : Net) (h : stableB net = true) (n key : Nat) (hn : memB net n = true) (hk : key < M) :
    ∃ fuel o, findSucc net fuel n key = .found o ∧ ownerOf net key = some o := by
  have hs := stable_of_stableB net h
  obtain ⟨fuel, o, hres, ho⟩ := lookup_correct net hs n key ((memB_iff net n).mp hn) hk
  refine ⟨fuel, o, hres, ?_⟩
  cases ho' : ownerOf net key with
  | none =>
    -- impossible: there is at least the member n
    exfalso
    have hn' : n ∈ liveIds net := (mem_liveIds net n).mpr ((memB_iff net n).mp hn)
    unfold ownerOf at ho'
    cases hl : liveIds net with
    | nil => rw [hl] at hn'; simp at hn'
    | cons a as =>
      rw [hl] at ho'
      simp only [argminDist] at ho'
      have : ∀ (ms : List Nat) (x : Nat), argminDist key (some x) ms ≠ none := by
        intro ms; induction ms with
        | nil => intro x; simp [argminDist]
        | cons b bs ih => intro x; simp only [argminDist]; split <;> exact ih _
      exact this _ _ ho'
  | some o' =>
    have := owner_unique net hs.lt key o o' hk ho (ownerOf_isOwner net key o' ho')
    rw [this]

end Specter.C01
