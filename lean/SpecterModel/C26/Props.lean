import SpecterModel.C26.Model
/-!
# C26 — Clients can only publish or remove hostnames they own, and routes point to them

Per-call theorems hold for EVERY DHT state, caller, hostname, server list and fault pattern; `reachable_inv`
is over ALL multi-client histories of generate / custom-bind / publish / unpublish / release / lease-hold
operations with arbitrary injected KV failures.
-/
namespace Specter.C26

/-! ## uniqueNodes -/

theorem uniqAux_nodup (s : List (Option String)) (acc : List String) (h : acc.Nodup) : (uniqAux s acc).Nodup := by
  induction s generalizing acc with
  | nil => simpa [uniqAux]
  | cons x r ih =>
    cases x with
    | none => simpa [uniqAux] using ih acc h
    | some a =>
      simp only [uniqAux]
      by_cases hm : a ∈ acc
      · simp only [hm, if_true]; exact ih acc h
      · simp only [hm, if_false]
        apply ih
        rw [List.nodup_append]
        refine ⟨h, by simp, ?_⟩
        intro x hx y hy; simp at hy; subst hy; intro he; subst he; exact hm hx

theorem uniqAux_mem (s : List (Option String)) (acc : List String) (a : String) :
    a ∈ uniqAux s acc ↔ a ∈ acc ∨ some a ∈ s := by
  induction s generalizing acc with
  | nil => simp [uniqAux]
  | cons x r ih =>
    cases x with
    | none => simp [uniqAux, ih]
    | some b =>
      simp only [uniqAux]
      by_cases hm : b ∈ acc
      · simp only [hm, if_true, ih, List.mem_cons, Option.some.injEq]
        constructor
        · rintro (h | h)
          · exact Or.inl h
          · exact Or.inr (Or.inr h)
        · rintro (h | h | h)
          · exact Or.inl h
          · exact Or.inl (h ▸ hm)
          · exact Or.inr h
      · simp only [hm, if_false, ih, List.mem_append, List.mem_cons, Option.some.injEq, List.not_mem_nil, or_false]
        constructor
        · rintro ((h | h) | h)
          · exact Or.inl h
          · exact Or.inr (Or.inl h)
          · exact Or.inr (Or.inr h)
        · rintro (h | h | h)
          · exact Or.inl (Or.inl h)
          · exact Or.inl (Or.inr h)
          · exact Or.inr h

/-- the requested servers are de-duplicated by address and are exactly the non-nil addresses asked for. -/
theorem uniq_spec (s : List (Option String)) : (uniq s).Nodup ∧ ∀ a, a ∈ uniq s ↔ some a ∈ s := by
  refine ⟨uniqAux_nodup s [] (by simp), fun a => ?_⟩
  simpa [uniq] using uniqAux_mem s [] a

theorem destAll_spec (d : String → Option Dest) (l : List String) (ds : List Dest) (h : destAll d l = some ds) :
    ds.length = l.length ∧ ∀ i (h1 : i < l.length) (h2 : i < ds.length), d l[i] = some ds[i] := by
  induction l generalizing ds with
  | nil => simp [destAll] at h; subst h; simp
  | cons a r ih =>
    simp only [destAll] at h
    cases ha : d a with
    | none => simp [ha] at h
    | some x =>
      cases hr : destAll d r with
      | none => simp [ha, hr] at h
      | some xs =>
        simp only [ha, hr, Option.some.injEq] at h; subst h
        obtain ⟨l1, l2⟩ := ih xs hr
        refine ⟨by simp [l1], fun i h1 h2 => ?_⟩
        cases i with
        | zero => simpa using ha
        | succ j => simpa using l2 j (by simpa using h1) (by simpa using h2)

/-! ## the publish / unpublish jobs -/

theorem putAll_frame (f : Faults) (c : Client) (h : String) (ds : List Dest) (k : Nat) (st : St) :
    (putAll f c h ds k st).1.owns = st.owns ∧ (putAll f c h ds k st).1.custom = st.custom
    ∧ (putAll f c h ds k st).1.dest = st.dest ∧ (putAll f c h ds k st).1.leased = st.leased
    ∧ ∀ h' k', (h' ≠ h ∨ k' < k ∨ k + ds.length ≤ k') → (putAll f c h ds k st).1.route h' k' = st.route h' k' := by
  induction ds generalizing k st with
  | nil => simp [putAll]
  | cons d ds ih =>
    simp only [putAll]
    cases hf : f.failRoute h k with
    | true =>
      simp only [if_true]
      obtain ⟨a, b, c', d', e⟩ := ih (k + 1) st
      refine ⟨a, b, c', d', fun h' k' hk => e h' k' ?_⟩
      simp only [List.length_cons] at hk
      rcases hk with hk | hk | hk
      · exact Or.inl hk
      · exact Or.inr (Or.inl (by omega))
      · exact Or.inr (Or.inr (by omega))
    | false =>
      simp only [Bool.false_eq_true, if_false]
      obtain ⟨a, b, c', d', e⟩ := ih (k + 1) (setRoute st h k (some ⟨c, d.chord, d.tunnel, h⟩))
      refine ⟨a, b, c', d', fun h' k' hk => ?_⟩
      simp only [List.length_cons] at hk
      have hk2 : h' ≠ h ∨ k' < k + 1 ∨ k + 1 + ds.length ≤ k' := by
        rcases hk with hk | hk | hk
        · exact Or.inl hk
        · exact Or.inr (Or.inl (by omega))
        · exact Or.inr (Or.inr (by omega))
      rw [e h' k' hk2]
      simp only [setRoute]
      have : ¬ (h' = h ∧ k' = k) := by
        intro ⟨h1, h2⟩
        rcases hk with hk | hk | hk
        · exact hk h1
        · omega
        · omega
      simp [this]

theorem putAll_at (f : Faults) (c : Client) (h : String) (ds : List Dest) (k : Nat) (st : St)
    (i : Nat) (hi : i < ds.length) (hf : f.failRoute h (k + i) = false) :
    (putAll f c h ds k st).1.route h (k + i) = some ⟨c, ds[i].chord, ds[i].tunnel, h⟩ := by
  induction ds generalizing k st i with
  | nil => simp at hi
  | cons d ds ih =>
    simp only [putAll]
    cases i with
    | zero =>
      simp only [Nat.add_zero] at hf ⊢
      simp only [hf, Bool.false_eq_true, if_false]
      have := (putAll_frame f c h ds (k + 1) (setRoute st h k (some ⟨c, d.chord, d.tunnel, h⟩))).2.2.2.2 h k
        (Or.inr (Or.inl (by omega)))
      rw [this]; simp [setRoute]
    | succ j =>
      have hj : j < ds.length := by simpa using hi
      have e : k + (j + 1) = (k + 1) + j := by omega
      rw [e] at hf ⊢
      cases hk : f.failRoute h k with
      | true => simp only [if_true]; simpa using ih (k + 1) st j hj hf
      | false => simp only [Bool.false_eq_true, if_false]; simpa using ih (k + 1) _ j hj hf

theorem putAll_new (f : Faults) (c : Client) (h : String) (ds : List Dest) (k : Nat) (st : St)
    (h' : String) (k' : Nat) (r : Route) (hr : (putAll f c h ds k st).1.route h' k' = some r) :
    st.route h' k' = some r ∨ (h' = h ∧ k ≤ k' ∧ k' < k + ds.length ∧ r.client = c ∧ r.hostname = h) := by
  induction ds generalizing k st with
  | nil => left; simpa [putAll] using hr
  | cons d ds ih =>
    simp only [putAll] at hr
    cases hf : f.failRoute h k with
    | true =>
      simp only [hf, if_true] at hr
      rcases ih (k + 1) st hr with h1 | ⟨a, b, c', d'⟩
      · exact Or.inl h1
      · exact Or.inr ⟨a, by omega, by simp only [List.length_cons]; omega, d'⟩
    | false =>
      simp only [hf, Bool.false_eq_true, if_false] at hr
      rcases ih (k + 1) _ hr with h1 | ⟨a, b, c', d'⟩
      · simp only [setRoute] at h1
        by_cases hh : h' = h ∧ k' = k
        · simp only [hh, and_self, if_true, Option.some.injEq] at h1
          right; subst h1; exact ⟨hh.1, by omega, by simp only [List.length_cons]; omega, rfl, rfl⟩
        · simp only [hh, if_false] at h1; exact Or.inl h1
      · exact Or.inr ⟨a, by omega, by simp only [List.length_cons]; omega, d'⟩

theorem delAll_frame (f : Faults) (h : String) (ks : List Nat) (st : St) :
    (delAll f h ks st).1.owns = st.owns ∧ (delAll f h ks st).1.custom = st.custom
    ∧ (delAll f h ks st).1.dest = st.dest ∧ (delAll f h ks st).1.leased = st.leased
    ∧ (∀ h' k', (delAll f h ks st).1.route h' k' = st.route h' k'
                 ∨ (h' = h ∧ k' ∈ ks ∧ (delAll f h ks st).1.route h' k' = none))
    ∧ ((delAll f h ks st).2 = false → ∀ k ∈ ks, (delAll f h ks st).1.route h k = none) := by
  induction ks generalizing st with
  | nil => simp [delAll]
  | cons k ks ih =>
    simp only [delAll]
    cases hf : f.failRoute h k with
    | true =>
      simp only [if_true]
      obtain ⟨a, b, c, d, e, _⟩ := ih st
      refine ⟨a, b, c, d, fun h' k' => ?_, by simp⟩
      rcases e h' k' with h1 | ⟨h1, h2, h3⟩
      · exact Or.inl h1
      · exact Or.inr ⟨h1, List.mem_cons_of_mem _ h2, h3⟩
    | false =>
      simp only [Bool.false_eq_true, if_false]
      obtain ⟨a, b, c, d, e, g⟩ := ih (setRoute st h k none)
      refine ⟨a, b, c, d, fun h' k' => ?_, fun hok k0 hk0 => ?_⟩
      · rcases e h' k' with h1 | ⟨h1, h2, h3⟩
        · by_cases hh : h' = h ∧ k' = k
          · right; refine ⟨hh.1, by simp [hh.2], ?_⟩
            rw [h1]; simp [setRoute, hh]
          · left; rw [h1]; simp [setRoute, hh]
        · exact Or.inr ⟨h1, List.mem_cons_of_mem _ h2, h3⟩
      · rcases List.mem_cons.mp hk0 with h1 | h1
        · subst h1
          rcases e h k0 with h2 | ⟨_, _, h3⟩
          · rw [h2]; simp [setRoute]
          · exact h3
        · exact g hok k0 h1

/-! ## PublishTunnel -/

/-- publishing succeeds only for a hostname registered to the calling (verified) client, with 1..3 distinct
servers, and while the caller's lease is free. -/
theorem publish_ok_requires (f : Faults) (c : Client) (h : String) (s : List (Option String)) (st : St)
    (p : List String) (hok : (publish f c h s st).2 = .ok p) :
    st.owns c.token h = true ∧ 1 ≤ (uniq s).length ∧ (uniq s).length ≤ numLinks ∧ st.leased c.token = false
    ∧ ∃ dsts, destAll st.dest (uniq s) = some dsts := by
  unfold publish at hok
  simp only at hok
  by_cases h1 : (uniq s).length > numLinks
  · simp [h1] at hok
  by_cases h2 : (uniq s).length < 1
  · simp [h1, h2] at hok
  by_cases h3 : st.leased c.token = true
  · simp [h1, h2, h3] at hok
  by_cases h4 : st.owns c.token h = true
  · refine ⟨h4, by omega, by omega, by simpa using h3, ?_⟩
    cases h5 : destAll st.dest (uniq s) with
    | none => simp [h1, h2, h3, h4, h5] at hok
    | some d => exact ⟨d, rfl⟩
  · simp [h1, h2, h3, h4] at hok

/-- a publish that is refused (not owner / bad server list / lease held / unknown server) changes nothing. -/
theorem publish_refused_unchanged (f : Faults) (c : Client) (h : String) (s : List (Option String)) (st : St)
    (hr : (publish f c h s st).2 = .permissionDenied ∨ (publish f c h s st).2 = .invalidArgument
          ∨ (publish f c h s st).2 = .internal) :
    (publish f c h s st).1 = st := by
  unfold publish at hr ⊢
  simp only at hr ⊢
  by_cases h1 : (uniq s).length > numLinks
  · simp [h1]
  by_cases h2 : (uniq s).length < 1
  · simp [h1, h2]
  by_cases h3 : st.leased c.token = true
  · simp [h1, h2, h3]
  by_cases h4 : st.owns c.token h = true
  · cases h5 : destAll st.dest (uniq s) with
    | none => simp [h1, h2, h3, h4, h5]
    | some d =>
      simp only [h1, h2, h3, h4, h5, if_false, Bool.not_true, Bool.false_eq_true] at hr
      by_cases h6 : (putAll f c h d 1 st).2.isEmpty = true <;> simp [h6] at hr
  · simp [h1, h2, h3, h4]

theorem not_owner_denied (f : Faults) (c : Client) (h : String) (s : List (Option String)) (st : St)
    (hown : st.owns c.token h = false) : (publish f c h s st).1 = st ∧ ∀ p, (publish f c h s st).2 ≠ .ok p := by
  refine ⟨?_, fun p hp => ?_⟩
  · unfold publish; simp only
    by_cases h1 : (uniq s).length > numLinks
    · simp [h1]
    by_cases h2 : (uniq s).length < 1
    · simp [h1, h2]
    by_cases h3 : st.leased c.token = true <;> simp [h1, h2, h3, hown]
  · have := (publish_ok_requires f c h s st p hp).1; rw [hown] at this; cases this

/-- C26: after a successful publish, for each of the k ≤ 3 distinct requested servers whose Put succeeded,
slot i+1 of the hostname holds a route naming the caller's VERIFIED identity, that server's destination
record and the hostname; nothing else in the DHT changes. -/
theorem publish_routes (f : Faults) (c : Client) (h : String) (s : List (Option String)) (st : St)
    (p : List String) (hok : (publish f c h s st).2 = .ok p) :
    ∃ dsts, destAll st.dest (uniq s) = some dsts ∧ dsts.length = (uniq s).length ∧ dsts.length ≤ numLinks
      ∧ (∀ i (hi : i < dsts.length), f.failRoute h (i + 1) = false →
            (publish f c h s st).1.route h (i + 1) = some ⟨c, dsts[i].chord, dsts[i].tunnel, h⟩)
      ∧ (∀ h' k', (h' ≠ h ∨ k' < 1 ∨ dsts.length < k') → (publish f c h s st).1.route h' k' = st.route h' k')
      ∧ (publish f c h s st).1.owns = st.owns ∧ (publish f c h s st).1.custom = st.custom := by
  obtain ⟨h4, h2, h1, h3, dsts, h5⟩ := publish_ok_requires f c h s st p hok
  have hlen : dsts.length = (uniq s).length := by
    exact (destAll_spec _ _ _ h5).1
  have hst : (publish f c h s st).1 = (putAll f c h dsts 1 st).1 := by
    unfold publish; simp only
    have e1 : ¬ (uniq s).length > numLinks := by omega
    have e2 : ¬ (uniq s).length < 1 := by omega
    simp only [e1, e2, h3, h4, h5, if_false, Bool.not_true, Bool.false_eq_true]
    by_cases h6 : (putAll f c h dsts 1 st).2.isEmpty = true <;> simp [h6]
  refine ⟨dsts, h5, hlen, by omega, ?_, ?_, ?_, ?_⟩
  · intro i hi hf
    rw [hst]
    have := putAll_at f c h dsts 1 st i hi (by rw [Nat.add_comm]; exact hf)
    rw [Nat.add_comm] at this; exact this
  · intro h' k' hk
    rw [hst]
    refine (putAll_frame f c h dsts 1 st).2.2.2.2 h' k' ?_
    rcases hk with hk | hk | hk
    · exact Or.inl hk
    · exact Or.inr (Or.inl hk)
    · exact Or.inr (Or.inr (by omega))
  · rw [hst]; exact (putAll_frame f c h dsts 1 st).1
  · rw [hst]; exact (putAll_frame f c h dsts 1 st).2.1

/-! ## UnpublishTunnel / ReleaseTunnel -/

theorem unadvertise_spec (f : Faults) (c : Client) (h : String) (st : St) :
    (st.owns c.token h = false → unadvertise f c h st = (st, some .permissionDenied))
    ∧ ((unadvertise f c h st).2 = none → st.owns c.token h = true ∧ ∀ k ∈ slots, (unadvertise f c h st).1.route h k = none)
    ∧ (unadvertise f c h st).1.owns = st.owns ∧ (unadvertise f c h st).1.custom = st.custom
    ∧ (unadvertise f c h st).1.leased = st.leased ∧ (unadvertise f c h st).1.dest = st.dest
    ∧ (∀ h' k', (unadvertise f c h st).1.route h' k' = st.route h' k'
          ∨ (h' = h ∧ (unadvertise f c h st).1.route h' k' = none)) := by
  unfold unadvertise
  by_cases ho : st.owns c.token h = true
  · obtain ⟨a, b, c', d, e, g⟩ := delAll_frame f h slots st
    simp only [ho, Bool.not_true, Bool.false_eq_true, if_false]
    by_cases hf : (delAll f h slots st).2 = true
    · simp only [hf, if_true]
      refine ⟨by simp, by simp, a, b, d, c', fun h' k' => ?_⟩
      rcases e h' k' with h1 | ⟨h1, _, h3⟩
      · exact Or.inl h1
      · exact Or.inr ⟨h1, h3⟩
    · simp only [hf]
      refine ⟨by simp, fun _ => ⟨trivial, g (by simpa using hf)⟩, a, b, d, c', fun h' k' => ?_⟩
      rcases e h' k' with h1 | ⟨h1, _, h3⟩
      · exact Or.inl h1
      · exact Or.inr ⟨h1, h3⟩
  · have ho' : st.owns c.token h = false := by simpa using ho
    simp [ho']

/-- unpublish / release succeed only for a hostname registered to the caller; a refusal changes nothing. -/
theorem unpublish_requires_ownership (f : Faults) (c : Client) (h : String) (st : St) :
    ((unpublish f c h st).2 = .ok [] → st.owns c.token h = true ∧ ∀ k ∈ slots, (unpublish f c h st).1.route h k = none)
    ∧ (st.owns c.token h = false → (unpublish f c h st).1 = st ∧ (unpublish f c h st).2 ≠ .ok []) := by
  obtain ⟨u1, u2, _⟩ := unadvertise_spec f c h st
  unfold unpublish
  by_cases hl : st.leased c.token = true
  · simp [hl]
  · simp only [hl, Bool.false_eq_true, if_false]
    constructor
    · intro hok
      cases hu : (unadvertise f c h st).2 with
      | none =>
        have := u2 hu
        rcases hq : unadvertise f c h st with ⟨s', o⟩
        rw [hq] at hu this; simp only at hu; subst hu; simpa using this
      | some e =>
        rcases hq : unadvertise f c h st with ⟨s', o⟩
        rw [hq] at hu hok; simp only at hu; subst hu
        have hown : st.owns c.token h = true := by
          cases ho : st.owns c.token h with
          | true => rfl
          | false => rw [u1 ho] at hq; injection hq with _ h2; injection h2 with h2; subst h2; simp at hok
        simp only at hok
        -- an `internal` outcome is not `.ok []`
        exfalso
        unfold unadvertise at hq
        simp only [hown, Bool.not_true, Bool.false_eq_true, if_false] at hq
        by_cases hf : (delAll f h slots st).2 = true
        · simp only [hf, if_true] at hq; injection hq with _ h2; injection h2 with h2; subst h2; simp at hok
        · simp [hf] at hq
    · intro ho; rw [u1 ho]; simp

theorem release_requires_ownership (f : Faults) (c : Client) (h : String) (st : St)
    (ho : st.owns c.token h = false) : (release f c h st).1 = st ∧ (release f c h st).2 ≠ .ok [] := by
  unfold release
  by_cases hl : st.leased c.token = true
  · simp [hl]
  · simp [hl, (unadvertise_spec f c h st).1 ho]

/-- C26: a successful release removes the hostname's routes (all slots), its registration under the caller,
and (unless that Delete failed) its custom-hostname binding. -/
theorem release_removes (f : Faults) (c : Client) (h : String) (st : St) (hok : (release f c h st).2 = .ok []) :
    st.owns c.token h = true
    ∧ (∀ k ∈ slots, (release f c h st).1.route h k = none)
    ∧ (release f c h st).1.owns c.token h = false
    ∧ (f.failCustomDel h = false → (release f c h st).1.custom h = none) := by
  obtain ⟨u1, u2, _⟩ := unadvertise_spec f c h st
  unfold release at hok ⊢
  by_cases hl : st.leased c.token = true
  · simp [hl] at hok
  · simp only [hl, Bool.false_eq_true, if_false] at hok ⊢
    rcases hq : unadvertise f c h st with ⟨s', o⟩
    rw [hq] at hok u2
    cases o with
    | some e =>
      exfalso
      simp only at hok
      have hown : st.owns c.token h = true := by
        cases ho : st.owns c.token h with
        | true => rfl
        | false => rw [u1 ho] at hq; injection hq with _ h2; injection h2 with h2; subst h2; simp at hok
      unfold unadvertise at hq
      simp only [hown, Bool.not_true, Bool.false_eq_true, if_false] at hq
      by_cases hf : (delAll f h slots st).2 = true
      · simp only [hf, if_true] at hq; injection hq with _ h2; injection h2 with h2; subst h2; simp at hok
      · simp [hf] at hq
    | none =>
      obtain ⟨a, b⟩ := u2 rfl
      simp only at b ⊢
      refine ⟨a, ?_, ?_, ?_⟩
      · intro k hk; by_cases hc : f.failCustomDel h = true <;> simp [hc, b k hk]
      · by_cases hc : f.failCustomDel h = true <;> simp [hc]
      · intro hc; simp [hc]

/-! ## all histories: stored routes always point to a client that owns the hostname -/

/-- every stored route sits in slot 1..3 of its own hostname and names a client to whom that hostname is
currently registered. -/
def Inv (st : St) : Prop :=
  ∀ h k r, st.route h k = some r → r.hostname = h ∧ 1 ≤ k ∧ k ≤ numLinks ∧ st.owns r.client.token h = true

theorem inv_init (d : String → Option Dest) : Inv (init d) := by
  intro h k r hr; simp [init] at hr

theorem inv_step (st : St) (op : Op) (hi : Inv st) : Inv (step st op).1 := by
  cases op with
  | generate c h =>
    simp only [step, generate]
    by_cases ho : st.owns c.token h = true
    · simpa [ho] using hi
    · simp only [ho, if_false]
      intro h' k r hr
      obtain ⟨a, b, c', d⟩ := hi h' k r hr
      refine ⟨a, b, c', ?_⟩
      show (if r.client.token = c.token ∧ h' = h then true else st.owns r.client.token h') = true
      split <;> simp_all
  | bindCustom c h =>
    simp only [step, bindCustom]
    intro h' k r hr
    obtain ⟨a, b, c', d⟩ := hi h' k r hr
    refine ⟨a, b, c', ?_⟩
    simp only; split <;> simp_all
  | hold t b => intro h k r hr; exact hi h k r hr
  | publish f c h s =>
    simp only [step]
    cases hres : (publish f c h s st).2 with
    | ok p =>
      obtain ⟨h4, h2, h1, h3, dsts, h5⟩ := publish_ok_requires f c h s st p hres
      obtain ⟨dsts', e5, hlen, hle, _, _, hown, _⟩ := publish_routes f c h s st p hres
      rw [h5] at e5; injection e5 with e5; subst e5
      have hst : (publish f c h s st).1 = (putAll f c h dsts 1 st).1 := by
        unfold publish; simp only
        have e1 : ¬ (uniq s).length > numLinks := by omega
        have e2 : ¬ (uniq s).length < 1 := by omega
        simp only [e1, e2, h3, h4, h5, if_false, Bool.not_true, Bool.false_eq_true]
        by_cases h6 : (putAll f c h dsts 1 st).2.isEmpty = true <;> simp [h6]
      intro h' k r hr
      rw [hown]
      rw [hst] at hr
      rcases putAll_new f c h dsts 1 st h' k r hr with h0 | ⟨a, b, c', d, e⟩
      · exact hi h' k r h0
      · subst a; exact ⟨e, b, by omega, by rw [d]; exact h4⟩
    | unavailable =>
      -- every Put failed: putAll changed nothing that is visible
      unfold publish at hres ⊢
      simp only at hres ⊢
      by_cases h1 : (uniq s).length > numLinks
      · simp [h1] at hres
      by_cases h2 : (uniq s).length < 1
      · simp [h1, h2] at hres
      by_cases h3 : st.leased c.token = true
      · simp [h1, h2, h3] at hres
      by_cases h4 : st.owns c.token h = true
      · cases h5 : destAll st.dest (uniq s) with
        | none => simp [h1, h2, h3, h4, h5] at hres
        | some dsts =>
          simp only [h1, h2, h3, h4, h5, if_false, Bool.not_true, Bool.false_eq_true]
          have hlen : dsts.length = (uniq s).length := (destAll_spec _ _ _ h5).1
          by_cases h6 : (putAll f c h dsts 1 st).2.isEmpty = true
          · simp only [h6, if_true]
            intro h' k r hr
            rw [(putAll_frame f c h dsts 1 st).1]
            rcases putAll_new f c h dsts 1 st h' k r hr with h0 | ⟨a, b, c', d, e⟩
            · exact hi h' k r h0
            · subst a; exact ⟨e, b, by omega, by rw [d]; exact h4⟩
          · simp [h1, h2, h3, h4, h5, h6] at hres
      · simp [h1, h2, h3, h4] at hres
    | permissionDenied => rw [publish_refused_unchanged f c h s st (Or.inl hres)]; exact hi
    | invalidArgument => rw [publish_refused_unchanged f c h s st (Or.inr (Or.inl hres))]; exact hi
    | internal => rw [publish_refused_unchanged f c h s st (Or.inr (Or.inr hres))]; exact hi
    | conflict =>
      exfalso
      unfold publish at hres; simp only at hres
      repeat (first | split at hres | simp at hres)
  | unpublish f c h =>
    simp only [step, unpublish]
    by_cases hl : st.leased c.token = true
    · simpa [hl] using hi
    · simp only [hl, Bool.false_eq_true, if_false]
      obtain ⟨_, _, a, _, _, _, e⟩ := unadvertise_spec f c h st
      have key : Inv (unadvertise f c h st).1 := by
        intro h' k r hr
        rw [a]
        rcases e h' k with h1 | ⟨_, h2⟩
        · rw [h1] at hr; exact hi h' k r hr
        · rw [h2] at hr; cases hr
      rcases hq : unadvertise f c h st with ⟨s', o⟩
      rw [hq] at key
      cases o <;> exact key
  | release f c h =>
    simp only [step, release]
    by_cases hl : st.leased c.token = true
    · simpa [hl] using hi
    · simp only [hl, Bool.false_eq_true, if_false]
      obtain ⟨_, u2, a, _, _, _, e⟩ := unadvertise_spec f c h st
      have key : Inv (unadvertise f c h st).1 := by
        intro h' k r hr
        rw [a]
        rcases e h' k with h1 | ⟨_, h2⟩
        · rw [h1] at hr; exact hi h' k r hr
        · rw [h2] at hr; cases hr
      rcases hq : unadvertise f c h st with ⟨s', o⟩
      rw [hq] at key u2 e a
      cases o with
      | some err => exact key
      | none =>
        have hnone := (u2 rfl).2
        simp only at hnone a e ⊢
        intro h' k r hr
        have hr' : s'.route h' k = some r := by
          by_cases hc : f.failCustomDel h = true <;> simpa [hc] using hr
        obtain ⟨x, y, z, w⟩ := key h' k r hr'
        have hne : h' ≠ h := by
          intro heq; subst heq
          have : k ∈ slots := by
            simp only [slots, List.mem_map, List.mem_range]; exact ⟨k - 1, by omega, by omega⟩
          rw [hnone k this] at hr'; cases hr'
        refine ⟨x, y, z, ?_⟩
        have w' : s'.owns r.client.token h' = true := w
        by_cases hc : f.failCustomDel h = true <;> simp [hc, hne, w']

/-- C26 over all histories: whatever sequence of operations by any number of clients (with any injected KV
failures) is executed from the empty DHT, every stored route names a client that owns the hostname. -/
theorem reachable_inv (d : String → Option Dest) (ops : List Op) : Inv (run (init d) ops) := by
  suffices ∀ st, Inv st → Inv (run st ops) from this _ (inv_init d)
  induction ops with
  | nil => intro st h; exact h
  | cons o os ih => intro st h; exact ih _ (inv_step st o h)

theorem numLinks_eq : numLinks = 3 := by decide

/-! ## spoofed identities: the identity a peer CLAIMS on the stream never reaches the DHT -/

/-- whatever identity the peer claims on the stream (none, its own, another client's, its own Id with another
client's Address, …), the call has the same outcome and the same effect on the DHT. -/
theorem claim_ignored (st : St) (r : Req) (cl : Option Ident) : stepReq st (r.withClaim cl) = stepReq st r := by
  cases r <;> rfl

theorem runReq_eq (st : St) (rs : List Req) : runReq st rs = run st (rs.map Req.op) := by
  induction rs generalizing st with
  | nil => rfl
  | cons r rs ih => simp only [runReq, List.foldl_cons, List.map_cons, run] at ih ⊢; exact ih _

/-- a route found after a publish was there before, or is a route of the published hostname naming the caller. -/
theorem publish_route_origin (f : Faults) (c : Client) (h : String) (s : List (Option String)) (st : St)
    (h' : String) (k' : Nat) (r : Route) (hr : (publish f c h s st).1.route h' k' = some r) :
    st.route h' k' = some r ∨ (h' = h ∧ r.client = c ∧ r.hostname = h) := by
  unfold publish at hr
  simp only at hr
  by_cases h1 : (uniq s).length > numLinks
  · simp only [h1, if_true] at hr; exact Or.inl hr
  by_cases h2 : (uniq s).length < 1
  · simp only [h1, h2, if_true, if_false] at hr; exact Or.inl hr
  by_cases h3 : st.leased c.token = true
  · simp only [h1, h2, h3, if_true, if_false] at hr; exact Or.inl hr
  by_cases h4 : st.owns c.token h = true
  · cases h5 : destAll st.dest (uniq s) with
    | none => simp only [h1, h2, h3, h4, h5, if_false, Bool.not_true, Bool.false_eq_true] at hr; exact Or.inl hr
    | some dsts =>
      simp only [h1, h2, h3, h4, h5, if_false, Bool.not_true, Bool.false_eq_true] at hr
      have hr' : (putAll f c h dsts 1 st).1.route h' k' = some r := by
        by_cases h6 : (putAll f c h dsts 1 st).2.isEmpty = true <;> simpa [h6] using hr
      rcases putAll_new f c h dsts 1 st h' k' r hr' with h0 | ⟨a, _, _, d, e⟩
      · exact Or.inl h0
      · exact Or.inr ⟨a, d, e⟩
  · simp only [h1, h2, h3, h4, if_false, Bool.not_false, if_true] at hr; exact Or.inl hr

/-- no call but a publish creates a route, and a publish creates only routes of its hostname naming its caller. -/
theorem step_route_origin (st : St) (op : Op) (h : String) (k : Nat) (r : Route)
    (hr : (step st op).1.route h k = some r) :
    st.route h k = some r ∨ ∃ f s, op = .publish f r.client h s := by
  cases op with
  | generate c h0 =>
    left; simp only [step, generate] at hr
    by_cases ho : st.owns c.token h0 = true <;> simpa [ho] using hr
  | bindCustom c h0 => left; simpa [step, bindCustom] using hr
  | hold t b => left; simpa [step] using hr
  | publish f c h0 s =>
    rcases publish_route_origin f c h0 s st h k r hr with h1 | ⟨a, b, _⟩
    · exact Or.inl h1
    · right; subst a; subst b; exact ⟨f, s, rfl⟩
  | unpublish f c h0 =>
    left
    simp only [step, unpublish] at hr
    by_cases hl : st.leased c.token = true
    · simpa [hl] using hr
    · simp only [hl, Bool.false_eq_true, if_false] at hr
      obtain ⟨_, _, _, _, _, _, e⟩ := unadvertise_spec f c h0 st
      have hr' : (unadvertise f c h0 st).1.route h k = some r := by
        rcases hq : unadvertise f c h0 st with ⟨s', o⟩
        rw [hq] at hr; cases o <;> exact hr
      rcases e h k with h1 | ⟨_, h2⟩
      · rw [h1] at hr'; exact hr'
      · rw [h2] at hr'; cases hr'
  | release f c h0 =>
    left
    simp only [step, release] at hr
    by_cases hl : st.leased c.token = true
    · simpa [hl] using hr
    · simp only [hl, Bool.false_eq_true, if_false] at hr
      obtain ⟨_, _, _, _, _, _, e⟩ := unadvertise_spec f c h0 st
      have hr' : (unadvertise f c h0 st).1.route h k = some r := by
        rcases hq : unadvertise f c h0 st with ⟨s', o⟩
        rw [hq] at hr
        cases o with
        | some err => exact hr
        | none => by_cases hc : f.failCustomDel h0 = true <;> simpa [hc] using hr
      rcases e h k with h1 | ⟨_, h2⟩
      · rw [h1] at hr'; exact hr'
      · rw [h2] at hr'; cases hr'

/-- C26, spoofed identities in requests: a successful PublishTunnel of a caller whose certificate names
`who.verified` — WHATEVER identity `who.claimed` it claims on the stream — was made by the owner of the hostname and
stores, for every requested server i whose Put succeeded, under slot i+1 the route
{ClientDestination = the certificate identity (Id, Address = token, Rendezvous), that server's record, hostname};
and every route present afterwards that was not there before names the certificate identity. -/
theorem publish_names_verified (f : Faults) (who : Caller) (h : String) (s : List (Option String)) (st : St)
    (p : List String) (hok : (stepReq st (.publish f who h s)).2 = .ok p) :
    st.owns who.verified.token h = true
    ∧ (∃ dsts, destAll st.dest (uniq s) = some dsts ∧ dsts.length = (uniq s).length ∧
        ∀ i (hi : i < dsts.length), f.failRoute h (i + 1) = false →
          ∃ r, (stepReq st (.publish f who h s)).1.route h (i + 1) = some r
            ∧ r.client = who.verified ∧ r.client.node = ⟨who.verified.id, who.verified.token, true⟩
            ∧ r.chord = dsts[i].chord ∧ r.tunnel = dsts[i].tunnel ∧ r.hostname = h)
    ∧ (∀ h' k' r, (stepReq st (.publish f who h s)).1.route h' k' = some r → st.route h' k' ≠ some r →
          h' = h ∧ r.client = who.verified ∧ r.client.node = ⟨who.verified.id, who.verified.token, true⟩) := by
  have hok' : (publish f who.verified h s st).2 = .ok p := hok
  obtain ⟨dsts, h5, hlen, _, hat, _, _, _⟩ := publish_routes f who.verified h s st p hok'
  refine ⟨(publish_ok_requires f who.verified h s st p hok').1, ⟨dsts, h5, hlen, fun i hi hf => ?_⟩, fun h' k' r hr hne => ?_⟩
  · exact ⟨_, hat i hi hf, rfl, rfl, rfl, rfl, rfl⟩
  · have hr' : (publish f who.verified h s st).1.route h' k' = some r := hr
    rcases publish_route_origin f who.verified h s st h' k' r hr' with h0 | ⟨a, b, _⟩
    · exact absurd h0 hne
    · exact ⟨a, b, by rw [b]; rfl⟩

/-- C26 over ALL histories of requests carrying arbitrary claimed identities: the invariant of `reachable_inv`
holds, and every stored route names the CERTIFICATE identity of a publish request of the history for that very
hostname — an identity that was only claimed on a stream never ends up in a route. -/
theorem routes_name_verified (d : String → Option Dest) (rs : List Req) :
    Inv (runReq (init d) rs)
    ∧ ∀ h k r, (runReq (init d) rs).route h k = some r →
        ∃ f who s, Req.publish f who h s ∈ rs ∧ who.verified = r.client := by
  refine ⟨by rw [runReq_eq]; exact reachable_inv d _, ?_⟩
  suffices ∀ (pre : List Req) (st : St),
      (∀ h k r, st.route h k = some r → ∃ f who s, Req.publish f who h s ∈ pre ∧ who.verified = r.client) →
      ∀ h k r, (runReq st rs).route h k = some r →
        ∃ f who s, Req.publish f who h s ∈ pre ++ rs ∧ who.verified = r.client by
    simpa using this [] (init d) (by intro h k r hr; simp [init] at hr)
  induction rs with
  | nil => intro pre st hp h k r hr; simpa [runReq] using hp h k r hr
  | cons q qs ih =>
    intro pre st hp h k r hr
    have key := ih (pre ++ [q]) (stepReq st q).1 (fun h' k' r' hr' => by
      rcases step_route_origin st q.op h' k' r' hr' with h0 | ⟨f, s, hq⟩
      · obtain ⟨f, who, s, hm, hv⟩ := hp h' k' r' h0
        exact ⟨f, who, s, by simp [hm], hv⟩
      · cases q with
        | publish f0 who h0 s0 =>
          simp only [Req.op, Op.publish.injEq] at hq
          obtain ⟨_, hc, hh, _⟩ := hq
          exact ⟨f0, who, s0, by simp [hh], hc⟩
        | generate _ _ => simp [Req.op] at hq
        | bindCustom _ _ => simp [Req.op] at hq
        | unpublish _ _ _ => simp [Req.op] at hq
        | release _ _ _ => simp [Req.op] at hq
        | hold _ _ => simp [Req.op] at hq) h k r (by simpa [runReq] using hr)
    simpa using key

/-! ## non-vacuity -/

private def d0 : String → Option Dest
  | "s1" => some ⟨"c1", "s1"⟩ | "s2" => some ⟨"c2", "s2"⟩ | _ => none
private def alice : Client := ⟨"alice", 1⟩
private def bob : Client := ⟨"bob", 2⟩
private def stA : St := (generate alice "h" (init d0)).1

example : (publish {} alice "h" [some "s1", none, some "s1", some "s2"] stA).2 = .ok ["s1", "s2"] := by decide
example : (publish {} alice "h" [some "s1", some "s2"] stA).1.route "h" 2 = some ⟨alice, "c2", "s2", "h"⟩ := by decide
example : (publish {} bob "h" [some "s1"] stA).2 = .permissionDenied := by decide
example : (publish {} alice "h" [some "s1", some "s2", some "s3", some "s4"] stA).2 = .invalidArgument := by decide
example : (release {} alice "h" (publish {} alice "h" [some "s1"] stA).1).2 = .ok [] := by decide
example : (release {} bob "h" stA).2 = .permissionDenied := by decide
example : (publish { failRoute := fun _ k => k == 1 } alice "h" [some "s1", some "s2"] stA).2 = .ok ["s2"] := by decide

-- spoofed stream identity: alice's certificate, alice's Id, bob's Address claimed on the stream
private def spoof : Caller := ⟨alice, some ⟨1, "bob", true⟩⟩
example : (stepReq stA (.publish {} spoof "h" [some "s1", some "s2"])).2 = .ok ["s1", "s2"] := by decide
example : ((stepReq stA (.publish {} spoof "h" [some "s1"])).1.route "h" 1).map (·.client.node) = some ⟨1, "alice", true⟩ := by decide
example : (stepReq stA (.publish {} ⟨bob, some ⟨1, "alice", true⟩⟩ "h" [some "s1"])).2 = .permissionDenied := by decide
example : (Req.publish {} spoof "h" [some "s1"]).withClaim none = .publish {} ⟨alice, none⟩ "h" [some "s1"] := rfl
example : (runReq (init d0) [.generate spoof "h", .publish {} spoof "h" [some "s2"]]).route "h" 1 = some ⟨alice, "c2", "s2", "h"⟩ := by decide

end Specter.C26
