import SpecterModel.C34.Drv

def main : IO Unit := Specter.C34.main
