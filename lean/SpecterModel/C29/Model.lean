/-!
# C29 — model of `checkAcme` / `AcmeInstruction` / `AcmeValidate` (tun/server/acme_rpc.go) and of the
binding-relevant part of `ReleaseTunnel` (tun/server/client_rpc.go). Core Lean only.

Oracles (explicit inputs of every request): `norm` = result of `acme.Normalize`, `powOk` = verdict of
`pow.VerifySolution` for subject `norm`, `cname` = resolver answer for the challenge name,
`target` = `acme.GenerateCustomRecord(...)` content for the caller's token.
-/
namespace Specter.C29

/-- authenticated caller: certificate identity (id, token); the node address is the token -/
structure Client where
  id : Nat
  token : String
deriving DecidableEq, Repr

structure Cfg where
  apex : String
  acme : String

/-- KV state: custom-hostname bindings and the per-token hostname lists -/
structure State where
  bound : String → Option Client
  lists : String → String → Bool      -- token → hostname → member

def State.init : State := ⟨fun _ => none, fun _ _ => false⟩

/-- `strings.Contains(s, p)` -/
def hasInfix (p : List Char) : List Char → Bool
  | [] => p.isEmpty
  | c :: cs => p.isPrefixOf (c :: cs) || hasInfix p cs

def contains (s p : String) : Bool := hasInfix p.toList s.toList

/-- Identity of a hostname *as a DNS name*: DNS names are compared ASCII-case-insensitively (RFC 4343),
so `Shop.customer.org` and `shop.customer.org` are one name. `fold` is its canonical spelling
(`Char.toLower` touches `A`..`Z` only). -/
def fold (s : String) : String := String.ofList (s.toList.map Char.toLower)

/-- two spellings of one DNS name -/
def sameName (x y : String) : Bool := fold x == fold y

/-- The code itself never folds case: `strings.Contains`, `CustomHostnameKey` (the KV key of a binding),
`ClientHostnamesPrefix` children and the proof-of-work subject are all byte-exact. It relies on
`acme.Normalize` returning the canonical spelling only (its last step rejects everything outside
`[a-z0-9-.]`, so a returned name has no upper-case letter). `canonical` is that postcondition; it is an
explicit hypothesis of the `*_any_spelling` theorems and is checked on every harness line. -/
def canonical (s : String) : Bool := fold s == s

/-- `strings.Count(s, ".")` -/
def dots (s : String) : Nat := s.toList.count '.'

inductive Code where
  | invHost      -- twirp invalid_argument, argument "hostname"
  | invPow       -- twirp invalid_argument / required argument of the proof (pub_key, signature, solution)
  | failedPre    -- twirp failed_precondition (resolver error, CNAME mismatch)
  | internal     -- twirp internal (KV write failed)
  | denied       -- twirp permission_denied
  | kvErr        -- raw KV error passed through
deriving DecidableEq, Repr

inductive Chk where
  | refused (c : Code) (kvReads : Nat)
  | found
  | notFound
deriving DecidableEq, Repr

/-- `checkAcme`, in the order of the code: proof of work, apex/acme substring, bare domain, binding -/
def checkAcme (cfg : Cfg) (st : State) (caller : Client) (h : String) (powOk kvGetFail : Bool) : Chk :=
  if !powOk then .refused .invPow 0
  else if contains h cfg.acme || contains h cfg.apex then .refused .invHost 0
  else if dots h < 2 then .refused .invHost 0
  else if kvGetFail then .refused .kvErr 1
  else match st.bound h with
    | some c => if c = caller then .found else .refused .invHost 1
    | none => .notFound

structure Req where
  caller : Client
  norm : Option String
  powOk : Bool
  cname : Option String
  target : String
  kvGetFail : Bool
  kvPutFail : Bool

inductive Res where
  | ok | refused (c : Code)
deriving DecidableEq, Repr

structure Out where
  res : Res
  asked : Option String     -- name handed to the resolver
  kvReads : Nat             -- KV reads performed
deriving DecidableEq, Repr

/-- `generateRecord` name part: "_acme-challenge." ++ zone ++ "." unless zone is already a FQDN -/
def challengeName (h : String) : String :=
  "_acme-challenge." ++ h ++ (if h.toList.getLast? = some '.' then "" else ".")

def bind (st : State) (h : String) (c : Client) : State :=
  ⟨fun x => if x = h then some c else st.bound x,
   fun t x => if t = c.token ∧ x = h then true else st.lists t x⟩

def save (st : State) (h : String) (r : Req) (asked : Option String) : State × Out :=
  if r.kvPutFail then (st, ⟨.refused .internal, asked, 1⟩) else (bind st h r.caller, ⟨.ok, asked, 1⟩)

/-- `AcmeValidate` -/
def validate (cfg : Cfg) (st : State) (r : Req) : State × Out :=
  match r.norm with
  | none => (st, ⟨.refused .invHost, none, 0⟩)
  | some h =>
    match checkAcme cfg st r.caller h r.powOk r.kvGetFail with
    | .refused c n => (st, ⟨.refused c, none, n⟩)
    | .found => save st h r none
    | .notFound =>
      match r.cname with
      | none => (st, ⟨.refused .failedPre, some (challengeName h), 1⟩)
      | some a =>
        if a ≠ r.target then (st, ⟨.refused .failedPre, some (challengeName h), 1⟩)
        else save st h r (some (challengeName h))

/-- `AcmeInstruction`: same checks, no state change; on success returns (challenge name, target) -/
def instruction (cfg : Cfg) (st : State) (r : Req) : Res × Option (String × String) :=
  match r.norm with
  | none => (.refused .invHost, none)
  | some h =>
    match checkAcme cfg st r.caller h r.powOk r.kvGetFail with
    | .refused c _ => (.refused c, none)
    | _ => (.ok, some (challengeName h, r.target))

/-- `ReleaseTunnel` as far as custom hostnames are concerned: only a holder of the token whose list
contains the (raw) hostname may release; the binding of that hostname is removed -/
def release (st : State) (caller : Client) (host : String) : State × Res :=
  if st.lists caller.token host then
    (⟨fun x => if x = host then none else st.bound x,
      fun t x => if t = caller.token ∧ x = host then false else st.lists t x⟩, .ok)
  else (st, .refused .denied)

inductive Op where
  | validate (r : Req)
  | instruction (r : Req)
  | release (caller : Client) (host : String)

def step (cfg : Cfg) (st : State) : Op → State
  | .validate r => (validate cfg st r).1
  | .instruction _ => st
  | .release c h => (release st c h).1

def run (cfg : Cfg) (st : State) (ops : List Op) : State := ops.foldl (step cfg) st

end Specter.C29
