import SpecterModel.Util
import SpecterModel.C01.Model
/-!
Shared line-protocol simulator of the ring model (used by the drivers of C01–C10).
`simStep net toks` returns the new net and the model's canonical output
`<result> | <dump of every node>`; the per-property drivers add their SPEC predicates.
-/
namespace Specter.Ring
open Specter.Util

def optStr : Option Nat → String
  | some n => toString n
  | none => "nil"

def rle (xs : List String) : String :=
  let rec go : List String → Option (String × Nat) → List String → List String
    | [], none, acc => acc.reverse
    | [], some (v, c), acc => (s!"{v}*{c}" :: acc).reverse
    | x :: rest, none, acc => go rest (some (x, 1)) acc
    | x :: rest, some (v, c), acc => if x == v then go rest (some (v, c+1)) acc else go rest (some (x, 1)) (s!"{v}*{c}" :: acc)
  ",".intercalate (go xs none [])

def storeStr (st : List KEntry) : String :=
  let es := (st.filter (fun e => !e.isDeleted)).toArray.qsort (fun a b => a.key < b.key) |>.toList
  if es.isEmpty then "-" else
  ",".intercalate (es.map fun e =>
    e.key ++ "=" ++ (match e.simple with | some v => v | none => "~") ++ String.join (e.children.map ("+" ++ ·)))

def nodeStr (id : Nat) (nd : Node) : String :=
  s!"{id}:{nd.state.name}:{optStr nd.pred}:{",".intercalate (nd.succs.map toString)}:{optStr nd.surrogate}:{rle (nd.fingers.map fun | some f => toString f | none => "n")}:{storeStr nd.store}"

def dump (net : Net) : String :=
  let ns := net.toArray.qsort (fun a b => a.1 < b.1) |>.toList
  " ; ".intercalate (ns.map fun (id, nd) => nodeStr id nd)

def errStr : Option Err → String
  | none => "ok"
  | some e => "err:" ++ e.name

def kvOutStr : KvOut → String
  | .unit => "ok"
  | .value none => "nil"
  | .value (some v) => "val:" ++ v
  | .bool b => boolStr b
  | .list l => "list:" ++ (if l.isEmpty then "-" else ",".intercalate l)
  | .err e => "err:" ++ e.name

/-- ListKeys through the ring walk (kinds: S = simple with non-empty value, P = prefix children) -/
def listKeys (net : Net) (n : Nat) (prefixHex : String) : String :=
  match net.get n with
  | none => "err:Unreachable"
  | some _ =>
    match ringWalk net n FUEL n [] with
    | .error e => "err:" ++ e.name
    | .ok nodes =>
      let pre := if prefixHex == "-" then "" else prefixHex
      let per : List (Option (List String)) := nodes.map fun m =>
        match net.get m with
        | none => none
        | some nd =>
          if nd.crashed || nd.state != .active then none else
          some ((nd.store.filter (fun e => e.key.startsWith pre)).flatMap fun e =>
            (match e.simple with | some v => if v != "-" && v != "" then ["S:" ++ e.key] else [] | none => []) ++
            (if e.children.isEmpty then [] else ["P:" ++ e.key]))
      if per.any (·.isNone) then "err:ErrKVStaleOwnership" else
      let all := (per.filterMap id).flatten.toArray.qsort (· < ·) |>.toList
      "keys:" ++ (if all.isEmpty then "-" else ",".intercalate all)

/-- result token (before ` | dump`) and new net for one op -/
def simOp (net : Net) (toks : List String) : Option (Net × String) :=
  let nat (s : String) := s.toNat?
  match toks with
  | ["new", n] => (nat n).map fun n => (net.set n {}, "ok")
  | ["create", n] => (nat n).map fun n => let (net', e) := create net n; (net', errStr e)
  | ["join", j, p] => do let j ← nat j; let p ← nat p; let (net', e) := join net j p; pure (net', errStr e)
  | ["joinprobe", j, p, k] => do
    -- a lookup at the joiner while its join request is on the way (state Joining, no pointers yet), then the join
    let j ← nat j; let p ← nat p; let k ← nat k
    match net.get j with
    | none => none
    | some nd =>
      if nd.state != .inactive then
        let (net', e) := join net j p
        pure (net', "nopause;" ++ errStr e)
      else
        let net1 := net.upd j (fun nd => { nd with state := .joining })
        let lres := match findSucc net1 FUEL j k with | .found o => s!"found:{o}" | .err e => "err:" ++ e.name
        let (net', e) := join net j p
        pure (net', lres ++ ";" ++ errStr e)
  | ["joinbegin", j, p] => do let j ← nat j; let p ← nat p; let (net', e) := joinBegin net j p; pure (net', errStr e)
  | ["jointasks", j] => (nat j).map fun j => (joinTasks net j, "pending:FinishJoin(true,false)")
  | ["joinadvise", j] => (nat j).map fun j => (joinAdvise net j, "pending:FinishJoin(false,true)")
  | ["joinrelease", j] => (nat j).map fun j => (joinRelease net j, "ok")
  | ["joinend", j] => (nat j).map fun j => (joinEnd net j, "ok")
  | ["setpred", n, v] => (nat n).map fun n => (net.upd n (fun nd => { nd with pred := v.toNat? }), "ok")
  | ["setstate", n, st] => do
    let n ← nat n
    let st ← [St.inactive, .joining, .active, .transferring, .leaving, .left].find? (·.name == st)
    pure (net.upd n (fun nd => { nd with state := st }), "ok")
  | ["setfinger", n, k, v] => do
    let n ← nat n; let k ← nat k
    pure (net.upd n (fun nd => { nd with fingers := nd.fingers.set (k-1) v.toNat? }), "ok")
  | ["setsuccs", n, l] => (nat n).map fun n =>
    (net.upd n (fun nd => { nd with succs := if l == "-" then [] else (l.splitOn ",").filterMap (·.toNat?) }), "ok")
  | ["reqleave", s] => (nat s).map fun s => let (net', e) := requestToLeave net s; (net', errStr e)
  | ["execleave", l] => (nat l).map fun l =>
    let (net', r) := executeLeave net l
    (net', match r with
      | .ok none => "ok:alone"
      | .ok (some (p, s)) => s!"ok:{p}:{s}"
      | .error e => "err:" ++ e.name)
  | ["leavefinish", l, p, sc] => do
    let l ← nat l; let p ← nat p; let sc ← nat sc
    let net1 := if p != l then finish net p true false else net
    let net2 := net1.upd l (fun nd => { nd with state := .left })
    let net3 := if sc != l then finish net2 sc false true else net2
    pure (net3, "ok")
  | ["leave", l] => (nat l).map fun l => let (net', e) := leave net l; (net', errStr e)
  | ["stabilize", n] => (nat n).map fun n => (stabilize net n, "ok")
  | ["stabilizex", n] => (nat n).map fun n => (stabilizeNoNotify net n, "ok")
  | ["fixfinger", n] => (nat n).map fun n => (fixFinger net n, "ok")
  | ["checkpred", n] => (nat n).map fun n => (checkPredecessor net n, "ok")
  | ["crash", n] => (nat n).map fun n => (net.upd n (fun nd => { nd with crashed := true }), "ok")
  | ["lookupq", n, k] | ["lookup", n, k] => do
    let n ← nat n; let k ← nat k
    pure (net, match findSucc net FUEL n k with | .found o => s!"found:{o}" | .err e => "err:" ++ e.name)
  | ["reqjoin", s, j] => do
    let s ← nat s; let j ← nat j
    let (net', r) := requestToJoin net FUEL s j
    pure (net', match r with
      | .ok (prev, l) => s!"ok:{prev}:{",".intercalate (l.map toString)}"
      | .error e => "err:" ++ e.name)
  | ["reqjoinrace", s, j, x] => do
    -- `checkPredecessor x` runs concurrently, between the routing decision and the membership lock
    let s ← nat s; let j ← nat j; let x ← nat x
    let (net', r) := requestToJoinWith (fun n => checkPredecessor n x) net FUEL s j
    pure (net', match r with
      | .ok (prev, l) => s!"ok:{prev}:{",".intercalate (l.map toString)}"
      | .error e => "err:" ++ e.name)
  | ["reqjoinjoin", s, j, h, p] => do
    -- a complete Join of `h` through `p` runs between the routing decision for `j` and the membership lock
    let s ← nat s; let j ← nat j; let h ← nat h; let p ← nat p
    let (net', r) := requestToJoinWith (fun n => (join n h p).1) net FUEL s j
    pure (net', match r with
      | .ok (prev, l) => s!"ok:{prev}:{",".intercalate (l.map toString)}"
      | .error e => "err:" ++ e.name)
  | ["finish", n, st, rel] => do
    let n ← nat n; let st ← parseBool st; let rel ← parseBool rel
    pure (finish net n st rel, "ok")
  | ["walk", n] => (nat n).map fun n =>
    (net, match ringWalk net n FUEL n [] with
      | .ok l => "ok:" ++ ",".intercalate (l.map toString)
      | .error e => "err:" ++ e.name)
  | ["listkeys", n, pre] => (nat n).map fun n => (net, listKeys net n pre)
  | [op, n, k, h] => do
    let n ← nat n; let h ← nat h
    let o ← (match op with | "get" => some KvOp.get | "del" => some KvOp.delete | "plist" => some KvOp.pList | _ => none)
    let (net', out) := kvAt net FUEL n k h o
    pure (net', kvOutStr out)
  | [op, n, k, h, v] => do
    let n ← nat n; let h ← nat h
    let o ← (match op with
      | "put" => some (KvOp.put v) | "pappend" => some (KvOp.pAppend v) | "premove" => some (KvOp.pRemove v)
      | "pcontains" => some (KvOp.pContains v) | _ => none)
    let (net', out) := kvAt net FUEL n k h o
    pure (net', kvOutStr out)
  | _ => none

/-- split the implementation's rhs `result | dump` -/
def splitRhs (rhs : String) : String × String :=
  match rhs.splitOn " | " with
  | [r] => (r, "")
  | r :: d => (r, " | ".intercalate d)
  | [] => ("", "")

/-- Generic ring driver step: compares result and dump; `spec` may veto with a SPEC verdict first. -/
def ringStep (spec : Net → Net → List String → String → Option String)
    (net : Net) (toks : List String) (rhs : String) : Net × Verdict :=
  match toks with
  | ["reset"] => ([], .ok)
  | _ =>
    match simOp net toks with
    | none => (net, .bad "unknown ring op")
    | some (net', res) =>
      let (ires, _) := splitRhs rhs
      match spec net net' toks ires with
      | some why => (net', .spec why)
      | none =>
        let m := res ++ " | " ++ dump net'
        if m == rhs then (net', .ok) else (net', .diff m)

end Specter.Ring
