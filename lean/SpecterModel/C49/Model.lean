/-!
# C49 model — `acme.ChordStorage` (acme/storage.go) over the in-memory KV (kv/memory), core Lean only.

Part 1: the file store (`Store/Load/Delete/Exists/Stat/List`) over the simple keyspace of the KV with the
`/acme-storage/` key mapping. Paths are `List Char` (Go strings), values `List Nat` (bytes);
`none` is Go's nil slice (never stored / deleted).

Part 2: `Lock/renew/Unlock` over the lease keyspace of kv/memory with EXPLICIT time (`now` in
nanoseconds, advanced only by `tick`). A lease token is its expiry time, 0 = free, as in kv/memory/lease.go.

Part 3: the renewal goroutine of each holder (`startLeaseRenewal` / `renewLease`) and the end of the context
`Lock` was called with.
-/
namespace Specter.C49

abbrev Path := List Char
abbrev Bytes := List Nat

/-! ## Part 1: file store -/

def kvKeyPrefix : Path := ['/', 'a', 'c', 'm', 'e', '-', 's', 't', 'o', 'r', 'a', 'g', 'e', '/']

/-- `kvKeyName` (acme/acme.go) -/
def kvKeyName (k : Path) : Path := kvKeyPrefix ++ k

/-- `strings.TrimPrefix` -/
def trimPrefix (p s : Path) : Path := if p.isPrefixOf s then s.drop p.length else s

/-- `strings.HasSuffix(s, "/")` -/
def endsWithSlash (s : Path) : Bool := s.getLast? == some '/'

/-- simple keyspace of the memory KV: key ↦ value pointer (`none` = nil slice) -/
abbrev Kv := List (Path × Option Bytes)

def Kv.get (kv : Kv) (k : Path) : Option Bytes :=
  match kv.lookup k with
  | some v => v
  | none => none

def Kv.put (kv : Kv) (k : Path) (v : Option Bytes) : Kv := (k, v) :: kv.filter (fun e => e.1 != k)

/-- `MemoryKV.ListKeys` restricted to SIMPLE composites: string-prefix scan, only values of length > 0 -/
def nonEmpty : Option Bytes → Bool
  | some (_ :: _) => true
  | _ => false

def Kv.listSimple (kv : Kv) (pfx : Path) : List Path :=
  (kv.map (·.1)).filter (fun k => pfx.isPrefixOf k && nonEmpty (kv.get k))

inductive Op where
  | store (k : Path) (v : Bytes)
  | load (k : Path)
  | delete (k : Path)
  | exists_ (k : Path)
  | stat (k : Path)
  | list (p : Path) (recursive : Bool)
  deriving Repr

inductive Out where
  | ok
  | notExist
  | val (b : Bytes)
  | bool (b : Bool)
  | size (n : Nat)
  | keys (ks : List Path)
  deriving Repr, DecidableEq

/-- the prefix the non-recursive loop works with: `kvKeyName(prefix)`, plus "/" unless it ends with one -/
def dirPrefix (p : Path) : Path :=
  let q := kvKeyName p
  if endsWithSlash q then q else q ++ ['/']

/-- body of the non-recursive loop for one SIMPLE key: skip keys not below `pfx`, else
`Cut(sub,"/")` and the choice between the key itself and `prefix+before`, then `TrimPrefix(kvKeyPrefix)` -/
def childOf (pfx k : Path) : Option Path :=
  if pfx.isPrefixOf k then
    let sub := trimPrefix pfx k
    let before := sub.takeWhile (· != '/')
    let newKey := if sub.contains '/' then pfx ++ before else k
    some (trimPrefix kvKeyPrefix newKey)
  else none

/-- the loop with its `seen` map (`seen` = the set of entries of `found`) -/
def listLoop (pfx : Path) : List Path → List Path → List Path
  | [], found => found
  | k :: ks, found =>
    match childOf pfx k with
    | none => listLoop pfx ks found
    | some c => if c ∈ found then listLoop pfx ks found else listLoop pfx ks (found ++ [c])

def listNonRec (keys : List Path) (p : Path) : List Path := listLoop (dirPrefix p) keys []

def listRec (keys : List Path) : List Path := keys.map (trimPrefix kvKeyPrefix)

/-- `ChordStorage.List` given the KV -/
def list (kv : Kv) (p : Path) (recursive : Bool) : List Path :=
  let keys := kv.listSimple (kvKeyName p)
  if recursive then listRec keys else listNonRec keys p

def step (kv : Kv) : Op → Kv × Out
  | .store k v => (kv.put (kvKeyName k) (some v), .ok)
  | .load k => (kv, match kv.get (kvKeyName k) with | some v => .val v | none => .notExist)
  | .delete k => (kv.put (kvKeyName k) none, .ok)
  | .exists_ k => (kv, .bool (kv.get (kvKeyName k)).isSome)
  | .stat k => (kv, match kv.get (kvKeyName k) with | some v => .size v.length | none => .notExist)
  | .list p r => (kv, .keys (list kv p r))

/-- history, most recent operation first -/
def runRev (kv0 : Kv) : List Op → Kv
  | [] => kv0
  | op :: h => (step (runRev kv0 h) op).1

/-! ## executable specification of the file-store part (used by the theorems AND by the driver's SPEC verdicts) -/

/-- the user-visible directory prefix: `p` with exactly one trailing "/" (the root "" stays "") -/
def userDir (p : Path) : Path := if p = [] ∨ p.getLast? = some '/' then p else p ++ ['/']

/-- SPEC of a history (most recent first): the last value stored under `k` unless deleted afterwards -/
def lastWrite (kv0 : Kv) : List Op → Path → Option Bytes
  | [], k => kv0.get (kvKeyName k)
  | .store k' v :: h, k => if k = k' then some v else lastWrite kv0 h k
  | .delete k' :: h, k => if k = k' then none else lastWrite kv0 h k
  | _ :: h, k => lastWrite kv0 h k

/-- user keys whose last stored value is non-empty (and not deleted), without repetition -/
def liveKeys (h : List Op) : List Path :=
  ((h.filterMap (fun op => match op with | .store k _ => some k | _ => none)).eraseDups).filter
    (fun k => nonEmpty (lastWrite [] h k))

/-- path-like key: non-empty segments separated by single "/" -/
def wfKey (k : Path) : Bool :=
  k != [] && k.head? != some '/' && k.getLast? != some '/' &&
  (k.zip k.tail).all (fun ab => !(ab.1 == '/' && ab.2 == '/'))

/-- "non-recursive listing returns each immediate child once", as a predicate on a RESULT `r`:
no entry twice; every entry is `dir(p)` + one segment and is, or has below it, a live key; every live
key strictly below `dir(p)` is, or lies below, some entry. -/
def listSpecOk (live : List Path) (p : Path) (r : List Path) : Bool :=
  let d := userDir p
  (r.eraseDups.length == r.length) &&
  r.all (fun c => d.isPrefixOf c && !((c.drop d.length).contains '/') &&
    live.any (fun k => k == c || (c ++ ['/']).isPrefixOf k)) &&
  live.all (fun k => !(d.isPrefixOf k) || r.any (fun c => k == c || (c ++ ['/']).isPrefixOf k))

/-! ## Part 2: locks over leases with explicit time -/

def second : Nat := 1000000000

/-- `durationGuard`: truncate to whole seconds, reject below one second.
(Written with `%`: a product with the literal 10^9 makes Lean's `whnf` recurse 10^9 times.) -/
def durationGuard (ttl : Nat) : Option Nat :=
  let td := ttl - ttl % second
  if td < second then none else some td

structure LockSt where
  now : Nat := 0                       -- virtual clock (ns)
  lease : Nat := 0                     -- `kvValue.lease` of the lock key: expiry time, 0 = free
  holders : List (Nat × Nat) := []     -- `leaseToken` maps of the storage instances: instance ↦ token
  deriving Repr

def LockSt.holder (s : LockSt) (i : Nat) : Option Nat := s.holders.lookup i
def setHolder (hs : List (Nat × Nat)) (i t : Nat) : List (Nat × Nat) := (i, t) :: hs.filter (·.1 != i)
def dropHolder (hs : List (Nat × Nat)) (i : Nat) : List (Nat × Nat) := hs.filter (·.1 != i)

inductive Ev where
  | tick (d : Nat)                     -- time passes
  | lockTry (i ttl : Nat)              -- one iteration of `Lock`'s loop: `KV.Acquire`, on success `startLeaseRenewal`
  | renew (i ttl : Nat)                -- `renewLeaseOnce` from the ticker (every ttl/4)
  | renewLock (i : Nat) (dur : Int) (ttl : Nat)  -- `RenewLockLease(key, dur)` (any `time.Duration`, negative too) of an instance configured with lease TTL `ttl`
  | unlock (i : Nat)                   -- `Unlock`: LoadAndDelete the holder, `KV.Release(token)`
  deriving Repr

inductive LOut where
  | none
  | acquired (tok : Nat)
  | conflict
  | invalidTTL
  | renewed (tok : Nat)
  | expired
  | notHolder
  | released
  deriving Repr, DecidableEq

def doLockTry (s : LockSt) (i ttl : Nat) : LockSt × LOut :=
  match durationGuard ttl with
  | none => (s, .invalidTTL)
  | some td =>
    if s.lease > s.now then (s, .conflict)
    else ({ s with lease := s.now + td, holders := setHolder s.holders i (s.now + td) }, .acquired (s.now + td))

def doRenew (s : LockSt) (i ttl : Nat) : LockSt × LOut :=
  match s.holder i with
  | none => (s, .notHolder)
  | some prev =>
    match durationGuard ttl with
    | none => (s, .invalidTTL)
    | some td =>
      if s.lease = 0 then (s, .expired)
      else if s.now > s.lease then (s, .expired)
      else if s.lease ≠ prev then (s, .expired)
      else ({ s with lease := s.now + td, holders := setHolder s.holders i (s.now + td) }, .renewed (s.now + td))

def doUnlock (s : LockSt) (i : Nat) : LockSt × LOut :=
  match s.holder i with
  | none => (s, .notHolder)
  | some tok =>
    if s.lease = tok then ({ s with lease := 0, holders := dropHolder s.holders i }, .released)
    else ({ s with holders := dropHolder s.holders i }, .expired)

def lstep (s : LockSt) : Ev → LockSt × LOut
  | .tick d => ({ s with now := s.now + d }, .none)
  | .lockTry i ttl => doLockTry s i ttl
  | .renew i ttl => doRenew s i ttl
  -- `RenewLockLease` ignores the caller's `leaseDuration`: it looks the holder up (`not a lease holder` when
  -- absent) and runs the SAME `renewLeaseOnce` as the ticker — the KV is asked for the configured TTL and the
  -- token it returns REPLACES the remembered one (`atomic.StoreUint64(&l.token, next)`), so that the next
  -- ticker renewal and the final `Unlock` present the current token
  | .renewLock i _dur ttl => doRenew s i ttl
  | .unlock i => doUnlock s i

def lrun (s : LockSt) : List Ev → LockSt
  | [] => s
  | e :: es => lrun (lstep s e).1 es

/-! ## Part 3: the renewal goroutine of a holder, and the context `Lock` was called with

`Lock(ctx, key)` uses `ctx` only for the `KV.Acquire` calls. On success `startLeaseRenewal` creates the lease
holder with a lifetime context derived from `context.Background()` and starts `go renewLease`: a ticker that
calls `renewLeaseOnce` every `ttl/4` until (a) `Unlock` cancels that lifetime context (`cancelFn` + `Wait`), or
(b) one of ITS renewals fails (`return` after logging; the entry stays in `leaseToken`). Nothing else ends it: in
particular not the end (cancellation, deadline) of the context `Lock` was called with — a caller that wraps the
acquisition in `ctx, cancel := context.WithTimeout(…); defer cancel()` still holds the lock afterwards. -/

/-- what `startLeaseRenewal` derives the lease holder's lifetime context from -/
inductive LeaseParent where
  | background   -- `context.WithCancel(context.Background())` — acme/storage.go
  | acquireCtx   -- the context passed to `Lock` — NOT what the code does; kept to show what the property needs
  deriving Repr, DecidableEq

/-- acme/storage.go `startLeaseRenewal`: `leaseCtx, leaseCancel := context.WithCancel(context.Background())` -/
def leaseParent : LeaseParent := .background

structure RSt where
  lock : LockSt := {}
  tickers : List Nat := []             -- instances whose renewal goroutine (`renewLease`) is running
  deriving Repr

inductive REv where
  | ev (e : Ev)          -- as in part 2; `.renew i ttl` now reads "the ticker period of instance i's goroutine elapses"
  | kvFault (i : Nat)    -- the KV fails (transport error) the renewal attempted by i's ticker: the goroutine returns
  | ctxDone (i : Nat)    -- the context instance i called `Lock` with is cancelled / reaches its deadline
  deriving Repr

def LOut.isAcquired : LOut → Bool
  | .acquired _ => true
  | _ => false

def LOut.isRenewed : LOut → Bool
  | .renewed _ => true
  | _ => false

def stopTicker (ts : List Nat) (i : Nat) : List Nat := ts.filter (· != i)
def startTicker (ts : List Nat) (i : Nat) : List Nat := i :: ts.filter (· != i)

/-- one step of the storage instances with their renewal goroutines, for either choice of the lifetime context's
parent -/
def rstepP (p : LeaseParent) (s : RSt) : REv → RSt × LOut
  | .ev (.lockTry i ttl) =>
    -- `Acquire`; on success `startLeaseRenewal`: store the holder, `go renewLease`
    let r := lstep s.lock (.lockTry i ttl)
    ({ lock := r.1, tickers := if r.2.isAcquired then startTicker s.tickers i else s.tickers }, r.2)
  | .ev (.renew i ttl) =>
    -- `case <-ticker.C` of `renewLease`: only while the goroutine runs; an error ends the goroutine
    if i ∈ s.tickers then
      let r := lstep s.lock (.renew i ttl)
      ({ lock := r.1, tickers := if r.2.isRenewed then s.tickers else stopTicker s.tickers i }, r.2)
    else (s, .none)
  | .ev (.unlock i) =>
    -- `LoadAndDelete` (absent: return), `cancelFn()`, `Wait()`, `Release`
    let r := lstep s.lock (.unlock i)
    ({ lock := r.1, tickers := if r.2 = .notHolder then s.tickers else stopTicker s.tickers i }, r.2)
  | .ev (.renewLock i dur ttl) =>
    -- `RenewLockLease`: its error goes to the caller, the goroutine is not involved
    let r := lstep s.lock (.renewLock i dur ttl)
    ({ s with lock := r.1 }, r.2)
  | .ev (.tick d) => ({ s with lock := (lstep s.lock (.tick d)).1 }, .none)
  | .kvFault i => ({ s with tickers := stopTicker s.tickers i }, .none)
  | .ctxDone i =>
    match p with
    | .background => (s, .none)        -- `leaseCtx` does not descend from the caller's context
    | .acquireCtx => ({ s with tickers := stopTicker s.tickers i }, .none)

/-- the code: the lifetime context's parent is `context.Background()` -/
def rstep (s : RSt) (e : REv) : RSt × LOut := rstepP leaseParent s e

def rrunP (p : LeaseParent) (s : RSt) : List REv → RSt
  | [] => s
  | e :: es => rrunP p (rstepP p s e).1 es

def rrun (s : RSt) (es : List REv) : RSt := rrunP leaseParent s es

/-! ## Part 4: a renewal request that is answered late

`renewLease` calls `renewLeaseOnce(context.Background(), key, l)` on every ticker period: the request is not bounded
by anything, the goroutine simply waits until the KV has answered, however long the DHT takes (a slow hop, a retry, a
latency spike). A request that needs `lat` to reach the KV is therefore "time `lat` passes, then the renewal is
evaluated": accepted iff the lease is still unexpired then. The goroutine ends only on an ERROR of the renewal, and a
slow answer is not an error. -/

/-- the context `renewLease` gives each renewal attempt -/
inductive RenewCtx where
  | background                -- `context.Background()` — acme/storage.go
  | perAttempt (bound : Nat)  -- a deadline of `bound` per attempt — NOT what the code does; kept to show what the property needs
  deriving Repr, DecidableEq

/-- acme/storage.go `renewLease`: `c.renewLeaseOnce(context.Background(), key, l)` -/
def renewCtx : RenewCtx := .background

/-- `case <-ticker.C` of instance `i`'s goroutine when the request needs `lat` to reach the KV. With a per-attempt
deadline that the latency reaches, `Renew` returns the context's error after `bound`, the KV is never asked, and the
goroutine returns — exactly as on a KV fault. -/
def slowRenewP (c : RenewCtx) (s : RSt) (i ttl lat : Nat) : RSt × LOut :=
  if i ∈ s.tickers then
    match c with
    | .background => rstep (rstep s (.ev (.tick lat))).1 (.ev (.renew i ttl))
    | .perAttempt b =>
      if lat < b then rstep (rstep s (.ev (.tick lat))).1 (.ev (.renew i ttl))
      else rstep (rstep s (.ev (.tick b))).1 (.kvFault i)
  else (s, .none)

/-- the code -/
def slowRenew (s : RSt) (i ttl lat : Nat) : RSt × LOut := slowRenewP renewCtx s i ttl lat

end Specter.C49
