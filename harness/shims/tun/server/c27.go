//go:build verif

package server

import (
	"context"
	"net"

	"go.miragespace.co/specter/spec/protocol"
	"go.miragespace.co/specter/spec/transport"
)

// VerifC27HandleProxyConn exposes the unexported proxy-stream handler to the C27 harness.
func (s *Server) VerifC27HandleProxyConn(ctx context.Context, d *transport.StreamDelegate) {
	s.handleProxyConn(ctx, d)
}

// VerifC27GetConn exposes getConn to the C27 harness.
func (s *Server) VerifC27GetConn(ctx context.Context, route *protocol.TunnelRoute) (net.Conn, error) {
	return s.getConn(ctx, route)
}
