import SpecterModel.C41.Model
/-!
# C41 — exhaustive exploration: two simultaneous dials and a stale reap at Q (kernel-evaluated)

Every interleaving of the four negotiation ends, the reaps that become due and ONE stale `reapPeer` at Q (a
second reap of an older, long dead connection) at any point, from every consistent pre-existing cache state
(one kernel evaluation per pre-state: they are independent, which bounds the memory of each).
-/
namespace Specter.C41
open Gen.C41

set_option maxRecDepth 100000 in
theorem explore_dual_lateQ_0 : explore genTable good 18 (init true (none, none) (false, true)) = true := by
  decide +kernel

set_option maxRecDepth 100000 in
theorem explore_dual_lateQ_1 : explore genTable good 18 (init true (some (.e, .outgoing), none) (false, true)) = true := by
  decide +kernel

set_option maxRecDepth 100000 in
theorem explore_dual_lateQ_2 : explore genTable good 18 (init true (some (.e, .incoming), none) (false, true)) = true := by
  decide +kernel

set_option maxRecDepth 100000 in
theorem explore_dual_lateQ_3 : explore genTable good 18 (init true (none, some (.e, .incoming)) (false, true)) = true := by
  decide +kernel

set_option maxRecDepth 100000 in
theorem explore_dual_lateQ_4 : explore genTable good 18 (init true (none, some (.e, .outgoing)) (false, true)) = true := by
  decide +kernel

set_option maxRecDepth 100000 in
theorem explore_dual_lateQ_5 : explore genTable good 18 (init true (some (.e, .outgoing), some (.e, .incoming)) (false, true)) = true := by
  decide +kernel

set_option maxRecDepth 100000 in
theorem explore_dual_lateQ_6 : explore genTable good 18 (init true (some (.e, .incoming), some (.e, .outgoing)) (false, true)) = true := by
  decide +kernel

theorem explore_dual_lateQ : ∀ pre ∈ preStates,
    explore genTable good 18 (init true pre (false, true)) = true := by
  intro pre hp
  simp only [preStates, List.mem_cons, List.not_mem_nil, or_false] at hp
  rcases hp with h | h | h | h | h | h | h <;> subst h
  · exact explore_dual_lateQ_0
  · exact explore_dual_lateQ_1
  · exact explore_dual_lateQ_2
  · exact explore_dual_lateQ_3
  · exact explore_dual_lateQ_4
  · exact explore_dual_lateQ_5
  · exact explore_dual_lateQ_6

end Specter.C41
