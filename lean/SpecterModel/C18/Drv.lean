import SpecterModel.Util
import SpecterModel.C18.Model
/-! C18 driver: collects the completed calls of one concurrent run and decides per-object linearizability.
`ev <backend> <key>/<s|c|l> <inv> <ret> <op…> => <result>`   (inv/ret: global atomic sequence numbers)
  s: `put v` `del` → ok|conflict ; `get` → value
  c: `add c` → ok|conflict ; `rm c` → ok ; `has c` → true|false ; `list` → `.`|c1,c2 (sorted)
  l: `acq` → tok:<n>|conflict ; `renew <prev>` → tok:<n>|expired ; `rel <tok>` → ok|expired
`check` decides: every object's history must be linearizable w.r.t. `specSimple`/`specChildren`/`specLease`
(from the initial empty object), and an `ErrKVSimpleConflict` answer must overlap a successful write. -/
namespace Specter.C18
open Specter.Util

structure Rec where
  obj : String
  inv : Nat
  ret : Nat
  kind : String          -- "s" | "c" | "l"
  op : List String
  res : String

def unTok (s : String) : String := if s = "-" then "" else s

def showSet (l : List String) : String := ",".intercalate l
def readSet (s : String) : List String := if s = "" then [] else s.splitOn ","

def tokOf (res : String) : Option Nat :=
  if res.startsWith "tok:" then (res.drop 4).toString.toNat? else none

/-- the transition test of one recorded call, on string-rendered states -/
def applyOf (r : Rec) : Option (String → Option String) :=
  match r.kind, r.op with
  | "s", ["put", v] =>
    if r.res = "ok" then some fun st => specSimple st (.put (unTok v)) .ok
    else if r.res = "conflict" then some fun st => specSimple st (.put (unTok v)) .conflict else none
  | "s", ["del"] =>
    if r.res = "ok" then some fun st => specSimple st .del .ok
    else if r.res = "conflict" then some fun st => specSimple st .del .conflict else none
  | "s", ["get"] => some fun st => specSimple st .get (.val (unTok r.res))
  | "c", ["add", c] =>
    if r.res = "ok" then some fun st => (specChildren (readSet st) (.add c) .ok).map showSet
    else if r.res = "conflict" then some fun st => (specChildren (readSet st) (.add c) .conflict).map showSet else none
  | "c", ["rm", c] => if r.res = "ok" then some fun st => (specChildren (readSet st) (.remove c) .ok).map showSet else none
  | "c", ["has", c] =>
    match parseBool r.res with
    | some b => some fun st => (specChildren (readSet st) (.contains c) (.bool b)).map showSet
    | none => none
  | "c", ["list"] =>
    let l := if r.res = "." then [] else r.res.splitOn ","
    some fun st => (specChildren (readSet st) .list (.items l)).map showSet
  | "l", ["acq"] =>
    match tokOf r.res with
    | some t => some fun st => (specLease (st.toNat?.getD 0) .acquire (.granted t)).map toString
    | none => if r.res = "conflict" then some fun st => (specLease (st.toNat?.getD 0) .acquire .conflict).map toString else none
  | "l", ["renew", p] =>
    match p.toNat?, tokOf r.res with
    | some p, some t => some fun st => (specLease (st.toNat?.getD 0) (.renew p) (.granted t)).map toString
    | some p, none => if r.res = "expired" then some fun st => (specLease (st.toNat?.getD 0) (.renew p) .expired).map toString else none
    | none, _ => none
  | "l", ["rel", k] =>
    match k.toNat? with
    | some k =>
      if r.res = "ok" then some fun st => (specLease (st.toNat?.getD 0) (.release k) .ok).map toString
      else if r.res = "expired" then some fun st => (specLease (st.toNat?.getD 0) (.release k) .expired).map toString else none
    | none => none
  | _, _ => none

def initOf (kind : String) : String := if kind = "l" then "0" else ""

def isWriteOk (r : Rec) : Bool := r.kind = "s" && (r.op.head? = some "put" || r.op.head? = some "del") && r.res = "ok"

/-- first violated object, if any -/
def checkAll (recs : List Rec) : Option String :=
  let objs := (recs.map (·.obj)).eraseDups
  objs.findSome? fun o =>
    let rs := recs.filter (·.obj = o)
    let kind := (rs.head?.map (·.kind)).getD "s"
    let evs := rs.filterMap fun r => (applyOf r).map fun f => ({ inv := r.inv, ret := r.ret, apply := f, label := "" } : Ev)
    if evs.length ≠ rs.length then some s!"unparsable call on {o}"
    else if !linearizable evs.toArray (initOf kind) then
      some s!"history of object {o} ({rs.length} calls) is not linearizable"
    else
      match rs.find? fun r => r.kind = "s" && r.res = "conflict" &&
          !(rs.any fun w => isWriteOk w && w.inv < r.ret && r.inv < w.ret) with
      | some r => some s!"ErrKVSimpleConflict on {o} (call {r.inv}..{r.ret}) without a concurrent successful write"
      | none => none

def step (recs : List Rec) (toks : List String) (rhs : String) : List Rec × Verdict :=
  match toks with
  | ["reset"] => ([], .ok)
  | "ev" :: _be :: obj :: inv :: ret :: op =>
    match inv.toNat?, ret.toNat?, obj.splitOn "/" with
    | some i, some r, [_, kind] =>
      if i < r then ({ obj := obj, inv := i, ret := r, kind := kind, op := op, res := rhs } :: recs, .ok)
      else (recs, .bad "inv ≥ ret")
    | _, _, _ => (recs, .bad "ev args")
  | ["check"] =>
    match checkAll recs.reverse with
    | some e => ([], .spec e)
    | none => ([], .ok)
  | _ => (recs, .bad "unknown op")

def main : IO Unit := runLoop ([] : List Rec) step

end Specter.C18
