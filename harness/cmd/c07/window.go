// C07, second family: a leave whose attempts fail part-way because the leaver's successor S holds the
// membership lock for a join that is in flight directly behind the leaver (joiner J between L and S).
// The join is held right after S accepted it (before its first FinishJoin call); Leave() of L starts
// inside that window, so its RequestToLeave is refused by S at least once; after 0..5 further task
// intervals the join is let go and concludes - the ring seen by the next retry differs from the ring
// seen by the failed attempt (L's successor is J now, S is Active again). Both lock orders of
// executeLeave are covered: L is the highest-id member (its successor has the lowest id: "succ -> self"
// order) or any other member ("self -> succ" order). After the retries ended and the ring settled every
// acknowledged key must be readable through every remaining node and every remaining node Active.
package main

import (
	"context"
	"sort"
	"strings"
	"sync"
	"time"

	impl "go.miragespace.co/specter/chord"
	"go.miragespace.co/specter/spec/chord"
	"verif/harness/hlib"
	"verif/harness/ringh"
)

// scenarios of the family (first token after "fault")
const (
	scLeaveHi = "leave-hi@join" // leaver = highest id: locks its successor first
	scLeaveLo = "leave-lo@join" // leaver = any other member: locks itself first
)

func isWindowScenario(sc string) bool { return sc == scLeaveHi || sc == scLeaveLo }

// keys of the family: the shared tokens plus a few more, so that the leaver owns data on most rings
var windowKeys = append(append([]string{}, ringh.KeyTokens...),
	"w0", "w1", "w2", "w3", "w4", "w5", "w6", "w7", "w8", "w9", "w10", "w11", "w12", "w13", "w14", "w15")

type rtlCall struct {
	target, succNow uint64
	targetState     chord.State
}

// ringSucc: the member following x (strictly) on the identifier circle
func ringSucc(members []uint64, x uint64) uint64 {
	best, bd := x, ringh.M
	for _, m := range members {
		d := (m + ringh.M - x) % ringh.M
		if d != 0 && d < bd {
			best, bd = m, d
		}
	}
	return best
}

func ringPred(members []uint64, x uint64) uint64 {
	best, bd := x, ringh.M
	for _, m := range members {
		d := (x + ringh.M - m) % ringh.M
		if d != 0 && d < bd {
			best, bd = m, d
		}
	}
	return best
}

// pickWindowRing draws member ids (adversarial styles first, uniform as a fallback) until the wanted leaver
// exists, owns at least one key and leaves room for a joiner between itself and its successor.
func pickWindowRing(rng *hlib.Rng, n int, hi bool) (members []uint64, leaver uint64, ok bool) {
	for try := 0; try < 200; try++ {
		var ids []uint64
		if try < 40 {
			ids = ringh.AdversarialIDs(rng, n)
		} else {
			seen := map[uint64]bool{}
			for len(ids) < n {
				x := rng.U64() % ringh.M
				if !seen[x] {
					seen[x] = true
					ids = append(ids, x)
				}
			}
		}
		sorted := append([]uint64{}, ids...)
		sort.Slice(sorted, func(i, j int) bool { return sorted[i] < sorted[j] })
		l := sorted[len(sorted)-1]
		if !hi {
			l = sorted[rng.Intn(len(sorted)-1)]
		}
		s := ringSucc(ids, l)
		if (s+ringh.M-l)%ringh.M < 3 {
			continue
		}
		p := ringPred(ids, l)
		owns := false
		for _, k := range windowKeys {
			if chord.Between(p, ringh.HashOf(k), l, true) {
				owns = true
				break
			}
		}
		if !owns {
			continue
		}
		return ids, l, true
	}
	return nil, 0, false
}

func windowCase(run *hlib.Run, rng *hlib.Rng, sc string) {
	hi := sc == scLeaveHi
	n := 2 + rng.Intn(4)
	members, leaver, ok := pickWindowRing(rng, n, hi)
	if !ok {
		run.Count("window:no-ring")
		return
	}
	succ := ringSucc(members, leaver)
	gap := (succ + ringh.M - leaver) % ringh.M // >= 3
	// joiner strictly between the leaver and its successor: next to the leaver, next to the successor, anywhere
	var off uint64
	jpos := ""
	switch rng.Intn(3) {
	case 0:
		jpos, off = "atL", 1+rng.U64()%minU(gap-1, 1000)
	case 1:
		jpos, off = "atS", gap-1-rng.U64()%minU(gap-1, 1000)
	default:
		jpos, off = "mid", 1+rng.U64()%(gap-1)
	}
	joiner := (leaver + off) % ringh.M
	if joiner < leaver {
		jpos += "-wrapped" // the joiner becomes the lowest id of the ring
	}
	r := ringh.NewRing()
	r.Interval = interval
	all := append(append([]uint64{}, members...), joiner)
	nodes := map[uint64]*impl.LocalNode{}
	for _, id := range all {
		nodes[id] = r.New(id)
	}
	defer func() {
		for _, id := range all {
			r.Crash(id)
			r.Node(id).VerifStop()
		}
	}()
	if err := r.Node(members[0]).Create(); err != nil {
		panic(err)
	}
	joined := []uint64{members[0]}
	for _, id := range members[1:] {
		if err := r.Node(id).Join(r.Wrap(joined[rng.Intn(len(joined))])); err != nil {
			run.Count("setup-join-failed")
			return
		}
		joined = append(joined, id)
		time.Sleep(10 * interval)
	}
	ctx := context.Background()
	allActive := func(ms []uint64) bool {
		for _, m := range ms {
			if r.Node(m).VerifState() != chord.Active {
				return false
			}
		}
		return true
	}
	acked := map[string]string{}
	for i, k := range windowKeys {
		v := hlib.Pick(rng, ringh.ValTokens)
		entry := r.Wrap(members[i%len(members)])
		if !waitFor(2*time.Second, func() bool { return entry.Put(ctx, []byte(k), []byte(v)) == nil }) {
			run.Count("setup-put-failed")
			return
		}
		acked[k] = v
	}
	readable := func(ms []uint64) []string {
		var lost []string
		for k, v := range acked {
			for _, m := range ms {
				got, err := r.Wrap(m).Get(ctx, []byte(k))
				if err != nil || string(got) != v {
					lost = append(lost, k)
					break
				}
			}
		}
		sort.Strings(lost)
		return lost
	}
	ringFormed := func() bool { // every member's successor pointer is the true ring successor
		for _, m := range members {
			ss := r.Node(m).VerifSuccs()
			if len(ss) == 0 || ss[0] == nil || ss[0].ID() != ringSucc(members, m) {
				return false
			}
			p := r.Node(m).VerifPred()
			if p == nil || p.ID() != ringPred(members, m) {
				return false
			}
		}
		return true
	}
	if !waitFor(6*time.Second, func() bool {
		return allActive(members) && ringFormed() && len(readable(members)) == 0
	}) {
		run.Count("setup-not-stable")
		return
	}
	if !strings.Contains(r.StoreStr(leaver), "=") {
		run.Count("window:leaver-without-data")
	}
	// observe (never disturb) the leaver's RequestToLeave calls: whom it asks, in which state that node is,
	// and who the leaver's successor is at that moment. (Called with the ring's lock held: only use `nodes`.)
	var callsMu sync.Mutex
	var calls []rtlCall
	lnode := nodes[leaver]
	r.Fault = func(target uint64, method string) int {
		if method == "RequestToLeave" {
			c := rtlCall{target: target, targetState: nodes[target].VerifState(), succNow: ^uint64(0)}
			if ss := lnode.VerifSuccs(); len(ss) > 0 && ss[0] != nil {
				c.succNow = ss[0].ID()
			}
			callsMu.Lock()
			calls = append(calls, c)
			callsMu.Unlock()
		}
		return 0
	}
	snapshot := func() []rtlCall {
		callsMu.Lock()
		defer callsMu.Unlock()
		return append([]rtlCall{}, calls...)
	}
	refusals := func() int {
		c := 0
		for _, x := range snapshot() {
			if x.targetState != chord.Active {
				c++
			}
		}
		return c
	}
	// hold the join right after the successor accepted it (successor Transferring, leaver not yet told)
	at, resume := r.PauseNext(func(m string) bool { return strings.HasPrefix(m, "FinishJoin") })
	jd := make(chan error, 1)
	peer := members[rng.Intn(len(members))]
	go func() {
		defer func() {
			if recover() != nil {
				jd <- chord.ErrJoinInvalidState
			}
		}()
		jd <- r.Node(joiner).Join(r.Wrap(peer))
	}()
	ld := make(chan struct{})
	extra := rng.Intn(6)
	inWindow := false
	select {
	case <-at:
		inWindow = true
		go func() { defer close(ld); defer func() { recover() }(); r.Node(leaver).Leave() }()
		// at least one attempt must have been turned down before the join goes on
		waitFor(time.Second, func() bool { return refusals() > 0 })
		time.Sleep(time.Duration(extra) * interval)
	case err := <-jd:
		jd <- err
		close(ld)
		run.Count("window:join-ended-before-window")
	case <-time.After(3 * time.Second):
		close(ld)
		run.Count("window:join-never-accepted")
	}
	refusedInWindow := refusals()
	resume()
	didJoin := false
	select {
	case err := <-jd:
		didJoin = err == nil
	case <-time.After(3 * time.Second):
	}
	select {
	case <-ld:
	case <-time.After(3 * time.Second):
	}
	var remaining []uint64
	st := r.Node(leaver).VerifState()
	for _, m := range members {
		if m != leaver || st != chord.Left {
			remaining = append(remaining, m)
		}
	}
	if didJoin || r.Node(joiner).VerifState() != chord.Inactive {
		remaining = append(remaining, joiner)
	}
	recovered := waitFor(6*time.Second, func() bool { return allActive(remaining) && len(readable(remaining)) == 0 })
	final := snapshot()
	r.Fault = nil
	sort.Slice(remaining, func(i, j int) bool { return remaining[i] < remaining[j] })
	var stuck []string
	for _, m := range remaining {
		if s := r.Node(m).VerifState(); s != chord.Active {
			stuck = append(stuck, ringh.U(m)+":"+s.String())
		}
	}
	lost := []string{}
	if !recovered {
		lost = readable(remaining)
	}
	// the attempt that went through: whom the leaver handed its keys to / who its successor was at that call
	handoff := "-"
	if st == chord.Left && len(final) > 0 {
		last := final[len(final)-1]
		handoff = role(last.target, leaver, succ, joiner) + "/" + role(last.succNow, leaver, succ, joiner)
	}
	reached := inWindow && refusedInWindow > 0
	lhs := hlib.F("fault %s RequestToLeave refused %s n=%d extra=%d j=%s", sc, hlib.B(reached), n, extra, jpos)
	run.Emit(lhs, "stuck="+hlib.Join(stuck, ",")+" lost="+hlib.Join(lost, ",")+" subject="+st.String()+" handoff="+handoff)
	key := ""
	if reached {
		key = hlib.F("%s|%v|%d|%d", sc, members, joiner, extra)
		run.Count(hlib.F("window:attempts-refused-%s", bucket(refusedInWindow)))
		run.Count("window:handoff-" + handoff)
	}
	run.Case(key)
	run.Count("tuple:" + sc + ":RequestToLeave:refused")
}

// role names a node relative to the scenario (ids are random): S = the leaver's successor before the join,
// J = the joiner, L = the leaver, other = anything else, none = no successor known
func role(x, leaver, succ, joiner uint64) string {
	switch x {
	case succ:
		return "S"
	case joiner:
		return "J"
	case leaver:
		return "L"
	case ^uint64(0):
		return "none"
	}
	return "other"
}

func bucket(n int) string {
	switch {
	case n <= 1:
		return "1"
	case n <= 3:
		return "2-3"
	}
	return "4+"
}

func minU(a, b uint64) uint64 {
	if a < b {
		return a
	}
	return b
}
