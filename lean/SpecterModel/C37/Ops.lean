/-! C37: vocabulary of the facts extracted from `(*apexServer).Mount`. -/
namespace Specter.C37

/-- middlewares that may be installed on the internal subtree -/
inductive Mw where
  | basicAuth       -- middleware.BasicAuth("internal", {a.authUser: a.authPass})
  | internalProxy   -- a.internalProxy  (gateway/internal_proxy.go)
  deriving DecidableEq, Repr

end Specter.C37
