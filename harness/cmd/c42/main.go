// C42 correspondence: the real transport.StreamRouter fed through fake transports' AcceptStream channels,
// with tagged handlers, vs the Lean dispatch model and the statement oracle.
package main

import (
	"context"
	"fmt"
	"net"
	"strconv"
	"time"

	"go.miragespace.co/specter/spec/protocol"
	"go.miragespace.co/specter/spec/transport"
	"go.uber.org/zap"
	"verif/harness/hlib"
)

type fakeTransport struct {
	transport.Transport // nil: any other method panics
	ch                  chan *transport.StreamDelegate
}

func (f *fakeTransport) AcceptStream() <-chan *transport.StreamDelegate { return f.ch }

type outcome struct {
	d   *transport.StreamDelegate
	res string
}

// fakeConn reports Close() as the "closed" outcome of its delegate.
type fakeConn struct {
	net.Conn
	out chan outcome
	d   *transport.StreamDelegate
}

func (c *fakeConn) Close() error {
	c.out <- outcome{c.d, "closed"}
	return nil
}

type op struct {
	kind string // hc ht ic it
	k    int
	id   int64 // hc: -1 = physical (nil target); ic: -1 = nil identity
	tag  int
}

func (o op) lhs() string {
	switch o.kind {
	case "hc":
		t := "phys"
		if o.id >= 0 {
			t = strconv.FormatInt(o.id, 10)
		}
		return fmt.Sprintf("hc %d %s %d", o.k, t, o.tag)
	case "ht":
		return fmt.Sprintf("ht %d %d", o.k, o.tag)
	case "ic":
		t := "nil"
		if o.id >= 0 {
			t = strconv.FormatInt(o.id, 10)
		}
		return fmt.Sprintf("ic %d %s", o.k, t)
	default:
		return fmt.Sprintf("it %d", o.k)
	}
}

var r *hlib.Run

func runCase(ops []op) {
	chord := &fakeTransport{ch: make(chan *transport.StreamDelegate)}
	tun := &fakeTransport{ch: make(chan *transport.StreamDelegate)}
	router := transport.NewStreamRouter(zap.NewNop(), chord, tun)
	ctx, cancel := context.WithCancel(context.Background())
	defer cancel()
	router.Accept(ctx)
	out := make(chan outcome, 64)
	handler := func(tag int) transport.StreamHandler {
		return func(d *transport.StreamDelegate) { out <- outcome{d, "h" + strconv.Itoa(tag)} }
	}
	r.Raw("reset")
	nontrivial := false
	key := ""
	for _, o := range ops {
		key += o.lhs() + ";"
		switch o.kind {
		case "hc":
			var target *protocol.Node
			if o.id >= 0 {
				target = &protocol.Node{Id: uint64(o.id), Address: "node"}
			}
			router.HandleChord(protocol.Stream_Type(o.k), target, handler(o.tag))
			r.Emit(o.lhs(), "ok")
			r.Count("register:chord")
		case "ht":
			router.HandleTunnel(protocol.Stream_Type(o.k), handler(o.tag))
			r.Emit(o.lhs(), "ok")
			r.Count("register:tunnel")
		default:
			d := &transport.StreamDelegate{Kind: protocol.Stream_Type(o.k)}
			if o.id >= 0 {
				d.Identity = &protocol.Node{Id: uint64(o.id), Address: "peer"}
			}
			d.Conn = &fakeConn{out: out, d: d}
			ch := chord.ch
			if o.kind == "it" {
				ch = tun.ch
			}
			res := ""
			select {
			case ch <- d:
				select {
				case oc := <-out:
					res = oc.res
					if oc.d != d {
						res += ":wrong-delegate"
					}
				case <-time.After(10 * time.Second):
					res = "no-outcome"
				}
			case <-time.After(10 * time.Second):
				res = "not-accepted"
			}
			r.Emit(o.lhs(), res)
			nontrivial = true
			if res == "closed" {
				r.Count("incoming:" + o.kind + ":closed")
			} else {
				r.Count("incoming:" + o.kind + ":handled")
			}
		}
	}
	// each stream must be handled / closed exactly once: nothing else may arrive
	extra := 0
	deadline := time.After(2 * time.Millisecond)
loop:
	for {
		select {
		case <-out:
			extra++
		case <-deadline:
			break loop
		}
	}
	r.Emit("end", "extra="+strconv.Itoa(extra))
	if nontrivial {
		r.Case(key)
	} else {
		r.Case("")
	}
}

func main() {
	r = hlib.Start()
	r.Rule = "case = fresh StreamRouter + random sequence (3..24) of registrations (HandleChord virtual/physical, HandleTunnel; kinds 0..5, target ids {0,1,2,3,2^48-1}, re-registration frequent) interleaved with incoming chord streams (kind, identity id or nil identity) and incoming tunnel streams; outcome = tag of the handler invoked with that very delegate, or closed; non-trivial = at least one incoming stream"
	rng := hlib.NewRng(r.Seed)
	if r.Replay != "" {
		var ops []op
		flush := func() {
			if len(ops) > 0 {
				runCase(ops)
			}
			ops = nil
		}
		for _, t := range r.ReplayLines() {
			pi := func(s string) int64 {
				if s == "phys" || s == "nil" {
					return -1
				}
				v, _ := strconv.ParseInt(s, 10, 64)
				return v
			}
			switch t[0] {
			case "reset":
				flush()
			case "hc":
				ops = append(ops, op{"hc", int(pi(t[1])), pi(t[2]), int(pi(t[3]))})
			case "ht":
				ops = append(ops, op{"ht", int(pi(t[1])), 0, int(pi(t[2]))})
			case "ic":
				ops = append(ops, op{"ic", int(pi(t[1])), pi(t[2]), 0})
			case "it":
				ops = append(ops, op{"it", int(pi(t[1])), 0, 0})
			}
		}
		flush()
		r.Finish()
		return
	}
	n := 1500
	if r.Thorough() {
		n = 40000
	}
	ids := []int64{0, 1, 2, 3, 1<<48 - 1}
	for c := 0; c < n; c++ {
		nk := 1 + rng.Intn(4) // few kinds => collisions between tables are frequent
		ln := 3 + rng.Intn(22)
		var ops []op
		tag := 1
		for i := 0; i < ln; i++ {
			k := rng.Intn(nk)
			x := rng.Intn(10)
			if i < ln/3 && rng.Chance(70) {
				x = rng.Intn(4) // registrations first, so that most incoming streams have a candidate handler
			}
			switch {
			case x < 2:
				ops = append(ops, op{"hc", k, hlib.Pick(rng, ids), tag})
				tag++
			case x == 2:
				ops = append(ops, op{"hc", k, -1, tag})
				tag++
			case x == 3:
				ops = append(ops, op{"ht", k, 0, tag})
				tag++
			case x < 8:
				id := hlib.Pick(rng, ids)
				if rng.Chance(8) {
					id = -1
				}
				ops = append(ops, op{"ic", k, id, 0})
			default:
				ops = append(ops, op{"it", k, 0, 0})
			}
		}
		runCase(ops)
	}
	r.Finish()
}
