import SpecterModel.C49.Drv

def main : IO Unit := Specter.C49.main
