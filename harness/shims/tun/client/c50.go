//go:build verif

package client

import (
	"go.miragespace.co/specter/spec/protocol"
	"go.miragespace.co/specter/spec/rtt"

	"github.com/zhangyunhao116/skipmap"
	"go.uber.org/zap"
)

// VerifC50ConnectedNodes runs the real (*Client).getConnectedNodes on a Client whose only populated fields are the
// connection map (filled in the given order under the given keys), the recorder (nil = RTT disabled) and a no-op logger.
func VerifC50ConnectedNodes(recorder rtt.Recorder, keys []string, nodes []*protocol.Node) []*protocol.Node {
	c := &Client{connections: skipmap.NewString[*protocol.Node]()}
	c.Logger = zap.NewNop()
	if recorder != nil {
		c.Recorder = recorder
	}
	for i, k := range keys {
		c.connections.Store(k, nodes[i])
	}
	return c.getConnectedNodes()
}
