#!/bin/sh
# tools/seedbatch.sh <round> <Cxx>...: confirm + check each delivered seeded change of a round (sequentially)
cd "$(dirname "$0")/.."
r=$1; shift
for p in "$@"; do
  src=/tmp/seed$r/$p/.seed
  [ -f "$src/patch.diff" ] || { echo "$p-$r: no patch.diff"; continue; }
  SEED_ID=$p-$r python3 tools/seedcheck.py $p $src 2>&1 | tail -1
done
