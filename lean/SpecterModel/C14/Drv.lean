import SpecterModel.Util
import SpecterModel.C14.Model
/-!
C14 line-protocol driver. Model = `acrossRPC` over the GENERATED registry / externals / error-map / handler table.
SPEC (from the statement): a registry error must arrive as the same registry variable with the origin's
retryability; an unknown (arbitrary / canceled) error must arrive non-retryable; `context.DeadlineExceeded` — which
the origin itself classifies as retryable (it is in `retryableErrs`, the wire code is failed_precondition) and which
nodes do return to remote callers (timeouts of forwarded operations) — must keep its retryability.
`%w`-wrapped registry errors and fresh errors carrying a registry message are outside the reachable domain
(no handler returns them): compared with the model only.
-/
namespace Specter.C14
open Specter.Util

def entryOf (name : String) : Option Entry := known.find? (fun e => e.name == name)

/-- an external sentinel: the known entry if the source mentions it, else just an error with that message -/
def extOf (name msg : String) : GoErr := match entryOf name with | some e => .reg e | none => .opaque msg

def originOf (kind arg : String) : Option GoErr :=
  match kind with
  | "reg" => (entryOf arg).map .reg
  | "wrapped" => (entryOf arg).map (fun e => .wrap ("storing KV to successor: " ++ e.msg) (.reg e))
  | "alias" => (entryOf arg).map (fun e => .opaque e.msg)
  | "deadline" => some (extOf "context.DeadlineExceeded" "context deadline exceeded")
  | "deadlinewrapped" => some (.wrap "forwarding: context deadline exceeded" (extOf "context.DeadlineExceeded" "context deadline exceeded"))
  | "canceled" => some (extOf "context.Canceled" "context canceled")
  | "opaque" => (hexToAscii arg).map .opaque
  | _ => none

def render (x : GoErr) (origin : GoErr) : String :=
  match x with
  | .reg e => s!"id={e.name} retry={boolStr (retryable known x)} msgsame=-"
  | .twirp c m => s!"id=tw:{c} retry={boolStr (retryable known x)} msgsame={boolStr (m == origin.msg)}"
  | _ => "other"

def field (rhs key : String) : String :=
  match (rhs.splitOn " ").find? (·.startsWith (key ++ "=")) with
  | some t => (t.drop (key.length + 1)).toString
  | none => ""

def step (_ : Unit) (toks : List String) (rhs : String) : Unit × Verdict :=
  match toks with
  | ["reset"] => ((), .ok)
  | ["reg", name, msg, r] =>
    match entryOf name, hexToAscii msg, parseBool r with
    | some e, some m, some r =>
      -- the harness's table, the running program and the extracted registry must agree
      if e.msg = m ∧ e.retryable = r then ((), .ok)
      else ((), .diff s!"registry entry {name}: message/retryable differ from the extracted registry")
    | none, _, _ => ((), .diff s!"{name} is not in the extracted registry")
    | _, _, _ => ((), .bad "reg args")
  | ["regcount", n] =>
    if n.toNat? = some known.length then ((), .ok)
    else ((), .diff s!"extracted registry + externals have {known.length} entries (harness table out of date?)")
  | ["rpc", method, kind, arg, oretry] =>
    match originOf kind arg, parseBool oretry with
    | some x, some oretry =>
      let how := howOf Gen.C14.handlers method
      let got := acrossRPC known mapped how x
      let id := field rhs "id"
      let retry := field rhs "retry"
      let sp : Option String :=
        match kind with
        | "reg" =>
          if id ≠ arg then some s!"{arg} is not recognised by the caller as the same error (caller sees {id})"
          else if retry ≠ boolStr oretry then some s!"{arg}: retryable at the origin = {oretry}, at the caller = {retry}"
          else none
        | "opaque" | "canceled" => if retry ≠ "false" then some "an unknown error became retryable at the caller" else none
        | "deadline" =>
          if retry ≠ boolStr oretry then
            some s!"context.DeadlineExceeded: retryable at the origin = {oretry}, at the caller = {retry}"
          else none
        | _ => none
      match sp with
      | some w => ((), .spec w)
      | none =>
        if retryable known x ≠ oretry then ((), .diff s!"model: retryable at the origin = {retryable known x}")
        else if render got x ≠ rhs then ((), .diff (render got x))
        else ((), .ok)
    | _, _ => ((), .bad "rpc args")
  | _ => ((), .bad "unknown op")

def main : IO Unit := runLoop () step

end Specter.C14
