import SpecterModel.C22.Model
import SpecterModel.C21.Props
/-!
# C22 — The append-only log never opens with data no prefix could produce

Byte-level theorems about the segment framing (uvarint length prefix) and the entry check
(checksum, version), then the end-to-end statements for a lost tail (every truncation offset) and a
torn tail (CRC detection of the torn variant is an explicit hypothesis — it cannot be a theorem).
-/
namespace Specter.Aof

/-! ### uvarint -/

theorem putUvarint_lt (x : Nat) (h : x < 128) : putUvarint x = [x] := by
  rw [putUvarint]; simp [h]

theorem putUvarint_ge (x : Nat) (h : ¬ x < 128) :
    putUvarint x = (x % 128 + 128) :: putUvarint (x / 128) := by
  rw [putUvarint]; simp [h]

theorem putUvarint_length_pos (x : Nat) : 0 < (putUvarint x).length := by
  by_cases h : x < 128
  · simp [putUvarint_lt x h]
  · simp [putUvarint_ge x h]

/-- decoding reads back exactly the encoded value and length, whatever follows (all `x < 2^64`) -/
theorem uvarintAux_put (x : Nat) : ∀ (i : Nat) (rest : Bytes), i ≤ 9 → x < 2 ^ (64 - 7 * i) →
    uvarintAux i (putUvarint x ++ rest) = some (x, (putUvarint x).length) := by
  induction x using Nat.strongRecOn with
  | _ x ih =>
    intro i rest hi hx
    have hi10 : i ≠ 10 := by omega
    by_cases h : x < 128
    · rw [putUvarint_lt x h]
      simp only [List.cons_append, List.nil_append, uvarintAux, hi10, if_false, h, if_true, List.length_singleton]
      have : ¬ (i = 9 ∧ x > 1) := by
        rintro ⟨rfl, hx1⟩
        simp at hx; omega
      simp [this]
    · rw [putUvarint_ge x h]
      have hi9 : i ≠ 9 := by
        rintro rfl
        simp at hx; omega
      have hpow : 2 ^ (64 - 7 * i) = 128 * 2 ^ (64 - 7 * (i + 1)) := by
        have : 64 - 7 * i = (64 - 7 * (i + 1)) + 7 := by omega
        rw [this, Nat.pow_add, Nat.mul_comm]
      have hx' : x / 128 < 2 ^ (64 - 7 * (i + 1)) := by
        apply Nat.div_lt_of_lt_mul; rw [← hpow]; exact hx
      have hb : ¬ (x % 128 + 128 < 128) := by omega
      simp only [List.cons_append, uvarintAux, hi10, if_false, hb,
        ih (x / 128) (by omega) (i + 1) rest (by omega) hx', List.length_cons]
      congr 2
      omega

/-- prefix-freeness: a strict prefix of an encoded length is never a complete uvarint -/
theorem uvarintAux_take_none (x : Nat) : ∀ (i k : Nat) (rest : Bytes), k < (putUvarint x).length →
    uvarintAux i ((putUvarint x ++ rest).take k) = none := by
  induction x using Nat.strongRecOn with
  | _ x ih =>
    intro i k rest hk
    by_cases h : x < 128
    · rw [putUvarint_lt x h] at hk ⊢
      have : k = 0 := by simpa using hk
      subst this; simp [uvarintAux]
    · rw [putUvarint_ge x h] at hk ⊢
      cases k with
      | zero => simp [uvarintAux]
      | succ k =>
        have hb : ¬ (x % 128 + 128 < 128) := by omega
        have hk' : k < (putUvarint (x / 128)).length := by simpa using hk
        simp only [List.cons_append, List.take_succ_cons, uvarintAux, hb, if_false,
          ih (x / 128) (by omega) (i + 1) k rest hk']
        split <;> rfl

theorem uvarint_prefix_free (x k : Nat) (rest : Bytes) (hk : k < (putUvarint x).length) :
    uvarint ((putUvarint x ++ rest).take k) = none := uvarintAux_take_none x 0 k rest hk

theorem uvarint_frame (p rest : Bytes) (hp : p.length < 2 ^ 64) :
    uvarint (frame p ++ rest) = some (p.length, (putUvarint p.length).length) := by
  unfold uvarint frame
  rw [List.append_assoc]
  exact uvarintAux_put _ 0 _ (by omega) (by simpa using hp)

/-! ### framing -/

theorem load_nil : load [] = some [] := by rw [load]; simp

theorem frame_length (p : Bytes) : (frame p).length = (putUvarint p.length).length + p.length := by
  simp [frame]

theorem load_frame_append (p rest : Bytes) (hp : p.length < 2 ^ 64) :
    load (frame p ++ rest) = match load rest with | some r => some (p :: r) | none => none := by
  have hpos := putUvarint_length_pos p.length
  have hne : frame p ++ rest ≠ [] := by
    intro h; have := congrArg List.length h
    rw [List.length_append, frame_length, List.length_nil] at this; omega
  rw [load]
  simp only [hne, dite_false, uvarint_frame p rest hp]
  have hn : (putUvarint p.length).length ≠ 0 := by omega
  have hlen : ¬ ((frame p ++ rest).length - (putUvarint p.length).length < p.length) := by
    simp [frame_length]; omega
  simp only [hn, dite_false, hlen, if_false]
  have h1 : (frame p ++ rest).drop (putUvarint p.length).length = p ++ rest := by
    unfold frame; rw [List.append_assoc]; exact List.drop_left' rfl
  have h2 : (frame p ++ rest).drop ((putUvarint p.length).length + p.length) = rest := by
    rw [← frame_length]; exact List.drop_left' rfl
  rw [h1, h2, List.take_left' rfl]
  cases load rest <;> rfl

/-- a written segment reads back as exactly its payloads -/
theorem load_segBytes (es : List Bytes) (hes : ∀ e ∈ es, e.length < 2 ^ 64) :
    load (segBytes es) = some es := by
  induction es with
  | nil => simpa [segBytes] using load_nil
  | cons e es ih =>
    have : segBytes (e :: es) = frame e ++ segBytes es := by simp [segBytes]
    rw [this, load_frame_append e _ (hes e (by simp)), ih (fun x hx => hes x (by simp [hx]))]

theorem load_segBytes_append (es : List Bytes) (g : Bytes) (hes : ∀ e ∈ es, e.length < 2 ^ 64) :
    load (segBytes es ++ g) = match load g with | some r => some (es ++ r) | none => none := by
  induction es with
  | nil =>
    simp only [segBytes, List.flatMap_nil, List.nil_append]
    cases load g <;> rfl
  | cons e es ih =>
    have : segBytes (e :: es) ++ g = frame e ++ (segBytes es ++ g) := by simp [segBytes]
    rw [this, load_frame_append e _ (hes e (by simp)), ih (fun x hx => hes x (by simp [hx]))]
    cases load g <;> simp

/-- cutting a file that starts with a frame at byte `t` -/
theorem load_take_frame_append (p rest : Bytes) (t : Nat) (hp : p.length < 2 ^ 64) :
    load ((frame p ++ rest).take t) =
      if t = 0 then some []
      else if t < (frame p).length then none
      else match load (rest.take (t - (frame p).length)) with
        | some r => some (p :: r)
        | none => none := by
  have hpos := putUvarint_length_pos p.length
  by_cases h0 : t = 0
  · subst h0; simpa using load_nil
  simp only [h0, if_false]
  by_cases hlt : t < (frame p).length
  · simp only [hlt, if_true]
    have hne : (frame p ++ rest).take t ≠ [] := by
      intro h; have := congrArg List.length h
      rw [List.length_take, List.length_append, List.length_nil] at this; omega
    rw [load]
    simp only [hne, dite_false]
    by_cases hk : t < (putUvarint p.length).length
    · -- cut inside the length prefix
      have : uvarint ((frame p ++ rest).take t) = none := by
        unfold frame; rw [List.append_assoc]; exact uvarint_prefix_free _ _ _ hk
      simp [this]
    · -- cut inside the payload
      have hsplit : (frame p ++ rest).take t
          = putUvarint p.length ++ (p ++ rest).take (t - (putUvarint p.length).length) := by
        unfold frame
        rw [List.append_assoc, List.take_append, List.take_of_length_le (Nat.le_of_not_lt hk)]
      have hu : uvarint ((frame p ++ rest).take t)
          = some (p.length, (putUvarint p.length).length) := by
        rw [hsplit]
        exact uvarintAux_put _ 0 _ (by omega) (by simpa using hp)
      have hn : (putUvarint p.length).length ≠ 0 := by omega
      have hshort : ((frame p ++ rest).take t).length - (putUvarint p.length).length < p.length := by
        rw [frame_length] at hlt
        simp [frame_length]; omega
      simp only [hu, hn, dite_false, hshort, if_true]
  · simp only [hlt, if_false]
    have : (frame p ++ rest).take t = frame p ++ rest.take (t - (frame p).length) := by
      rw [List.take_append]
      simp [List.take_of_length_le (Nat.le_of_not_lt hlt)]
    rw [this, load_frame_append p _ hp]

/-- **Truncation.** A segment cut at ANY byte offset is either rejected as corrupt or reads back as a
prefix of the written payloads — never anything else. -/
theorem truncation_prefix_or_corrupt (es : List Bytes) (hes : ∀ e ∈ es, e.length < 2 ^ 64) (t : Nat) :
    load ((segBytes es).take t) = none ∨ ∃ n, load ((segBytes es).take t) = some (es.take n) := by
  induction es generalizing t with
  | nil => right; exact ⟨0, by simpa [segBytes] using load_nil⟩
  | cons e es ih =>
    have hseg : segBytes (e :: es) = frame e ++ segBytes es := by simp [segBytes]
    rw [hseg, load_take_frame_append e _ t (hes e (by simp))]
    by_cases h0 : t = 0
    · right; exact ⟨0, by simp [h0]⟩
    by_cases hlt : t < (frame e).length
    · left; simp [h0, hlt]
    · simp only [h0, hlt, if_false]
      rcases ih (fun x hx => hes x (by simp [hx])) (t - (frame e).length) with h | ⟨n, h⟩
      · left; rw [h]
      · right; exact ⟨n + 1, by rw [h]; simp⟩

/-- cutting exactly at a frame boundary keeps exactly the frames before it (both outcomes occur) -/
theorem truncation_at_boundary (es : List Bytes) (hes : ∀ e ∈ es, e.length < 2 ^ 64) (n : Nat) :
    load (segBytes (es.take n)) = some (es.take n) :=
  load_segBytes _ (fun e he => hes e (List.mem_of_mem_take he))

/-! ### entry check -/

/-- whatever `decodeEntry` accepts carries a matching checksum and the known version -/
theorem accepted_entry_checksummed (c : Codec) (e : LogEntry) (m : Mutation)
    (h : decodeEntry c e = some m) : c.crc e.data = e.checksum ∧ e.version = logV1 := by
  unfold decodeEntry at h
  by_cases h1 : e.checksum ≠ c.crc e.data
  · simp [h1] at h
  · by_cases h2 : e.version = logV1
    · exact ⟨(Decidable.not_not.mp h1).symm, h2⟩
    · simp [h1, h2] at h

theorem decodeAll_take (c : Codec) (es : List Bytes) (ms : List Mutation) (h : decodeAll c es = some ms)
    (n : Nat) : decodeAll c (es.take n) = some (ms.take n) := by
  induction es generalizing ms n with
  | nil => simp [decodeAll] at h; subst h; simp [decodeAll]
  | cons e es ih =>
    cases n with
    | zero => simp [decodeAll]
    | succ n =>
      simp only [decodeAll] at h
      cases hd : decodePayload c e with
      | none => simp [hd] at h
      | some m =>
        cases hr : decodeAll c es with
        | none => simp [hd, hr] at h
        | some ms' =>
          simp [hd, hr] at h; subst h
          simp [decodeAll, hd, ih ms' hr n]

theorem decodeAll_append_reject (c : Codec) (es : List Bytes) (q : Bytes) (qs : List Bytes)
    (hq : decodePayload c q = none) : decodeAll c (es ++ q :: qs) = none := by
  induction es with
  | nil => simp [decodeAll, hq]
  | cons e es ih =>
    simp only [List.cons_append, decodeAll, ih]
    cases decodePayload c e <;> rfl

/-! ### which states a log prefix can produce -/

theorem submit_log_cases (pre : Bool) (s : Store) (mu : Mutation) :
    (submitG pre s mu).1.log = s.log ∨ (submitG pre s mu).1.log = s.log ++ [mu] := by
  unfold submitG
  cases (if pre = true then check s.mem mu else none) with
  | some e => left; rfl
  | none =>
    simp only
    cases handle s.mem mu with
    | ok m' => right; rfl
    | error e => left; simp

theorem runHist_log_extends (hist : List Mutation) : ∀ s : Store, ∃ ext, (runHist s hist).log = s.log ++ ext := by
  induction hist with
  | nil => intro s; exact ⟨[], by simp [runHist]⟩
  | cons mu rest ih =>
    intro s
    obtain ⟨ext, h⟩ := ih (submit s mu).1
    rcases submit_log_cases true s mu with h1 | h1
    · exact ⟨ext, by simp only [runHist]; rw [h]; unfold submit; rw [h1]⟩
    · exact ⟨mu :: ext, by simp only [runHist]; rw [h]; unfold submit; rw [h1]; simp⟩

/-- every prefix of the final log is the log after some prefix of the history -/
theorem log_take_is_hist_prefix (hist : List Mutation) : ∀ (s : Store) (n : Nat), s.log.length ≤ n →
    ∃ p, p ≤ hist.length ∧ (runHist s (hist.take p)).log = (runHist s hist).log.take n := by
  induction hist with
  | nil =>
    intro s n hn
    exact ⟨0, Nat.le_refl _, by simp [runHist, List.take_of_length_le hn]⟩
  | cons mu rest ih =>
    intro s n hn
    by_cases hbig : ((submit s mu).1).log.length ≤ n
    · obtain ⟨p, hp, h⟩ := ih (submit s mu).1 n hbig
      exact ⟨p + 1, by simpa using hp, by simpa [runHist] using h⟩
    · -- n = s.log.length and the mutation was logged
      rcases submit_log_cases true s mu with h1 | h1
      · exfalso; apply hbig; unfold submit; rw [h1]; exact hn
      · have hlen : n = s.log.length := by
          have : (submit s mu).1.log.length = s.log.length + 1 := by unfold submit; rw [h1]; simp
          omega
        obtain ⟨ext, hext⟩ := runHist_log_extends rest (submit s mu).1
        refine ⟨0, Nat.zero_le _, ?_⟩
        simp only [List.take_zero, runHist]
        rw [hext]; unfold submit; rw [h1, hlen, List.append_assoc]
        exact (List.take_left' rfl).symm

theorem prefix_log_state (hist : List Mutation) (n : Nat) :
    ∃ p, p ≤ hist.length ∧
      replay ((runHist Store.init hist).log.take n) = .ok (specState Mem.empty (hist.take p)) := by
  obtain ⟨p, hp, h⟩ := log_take_is_hist_prefix hist Store.init n (Nat.zero_le _)
  refine ⟨p, hp, ?_⟩
  rw [← h, (replay_inv (hist.take p)).1, mem_is_spec]

/-- what the property allows after a lost / torn tail: an error, or the reference state of a prefix
of the (acknowledged) history -/
def ErrorOrPrefixState (hist : List Mutation) (r : Option Store) : Prop :=
  r = none ∨ ∃ st p, r = some st ∧ p ≤ hist.length ∧ st.mem = specState Mem.empty (hist.take p)

theorem reopen_payload_prefix (c : Codec) (hist : List Mutation) (es : List Bytes)
    (hcodec : decodeAll c es = some (runHist Store.init hist).log) (n : Nat) (seg : Bytes)
    (hload : load seg = some (es.take n)) : ErrorOrPrefixState hist (reopenBytes c seg) := by
  obtain ⟨p, hp, hrep⟩ := prefix_log_state hist n
  right
  refine ⟨{ log := (runHist Store.init hist).log.take n, mem := specState Mem.empty (hist.take p),
            counter := ((runHist Store.init hist).log.take n).length + 1 }, p, ?_, hp, rfl⟩
  simp [reopenBytes, hload, decodeAll_take c es _ hcodec n, reopenLog, hrep]

/-- **C22, lost tail.** `es` are the payloads the store wrote for `hist` (the codec reads them back as
the logged mutations). If the file is cut at ANY byte offset `t`, `aof.New` fails or yields the state
of a prefix of the history — never data no prefix produces. -/
theorem lost_tail_prefix_state (c : Codec) (hist : List Mutation) (es : List Bytes)
    (hes : ∀ e ∈ es, e.length < 2 ^ 64)
    (hcodec : decodeAll c es = some (runHist Store.init hist).log) (t : Nat) :
    ErrorOrPrefixState hist (reopenBytes c ((segBytes es).take t)) := by
  rcases truncation_prefix_or_corrupt es hes t with h | ⟨n, h⟩
  · left; simp [reopenBytes, h]
  · exact reopen_payload_prefix c hist es hcodec n _ h

/-- a mutation whose type no `handleMutation` case matches: replaying it changes nothing -/
def Noop (m : Mutation) : Prop := ∀ mem, handle mem m = .ok mem

theorem noop_zero : Noop {} := by intro mem; simp [handle, tags]

theorem replayG_reset_append_list (m : Mem) (l1 l2 : List Mutation) :
    replayG true {} m (l1 ++ l2) =
      match replayG true {} m l1 with
      | .error e => .error e
      | .ok m' => replayG true {} m' l2 := by
  induction l1 generalizing m with
  | nil => simp [replayG]
  | cons x xs ih =>
    rw [List.cons_append, replayG_reset_cons, replayG_reset_cons]
    cases handle m x with
    | error e => rfl
    | ok m' => exact ih m'

theorem replay_noops (m : Mem) (ns : List Mutation) (h : ∀ n ∈ ns, Noop n) :
    replayG true {} m ns = .ok m := by
  induction ns with
  | nil => rfl
  | cons n ns ih =>
    rw [replayG_reset_cons, h n (by simp)]
    exact ih (fun x hx => h x (by simp [hx]))

theorem decodeAll_append (c : Codec) (a b : List Bytes) :
    decodeAll c (a ++ b) =
      match decodeAll c a, decodeAll c b with
      | some x, some y => some (x ++ y)
      | _, _ => none := by
  induction a with
  | nil =>
    simp only [List.nil_append, decodeAll]
    cases decodeAll c b <;> rfl
  | cons e a ih =>
    simp only [List.cons_append, decodeAll, ih]
    cases decodePayload c e <;> cases decodeAll c a <;> cases decodeAll c b <;> rfl

theorem decodeAll_mem (c : Codec) (ps : List Bytes) (ns : List Mutation) (h : decodeAll c ps = some ns) :
    ∀ n ∈ ns, ∃ q ∈ ps, decodePayload c q = some n := by
  induction ps generalizing ns with
  | nil => simp [decodeAll] at h; subst h; simp
  | cons p ps ih =>
    simp only [decodeAll] at h
    cases hd : decodePayload c p with
    | none => simp [hd] at h
    | some m =>
      cases hr : decodeAll c ps with
      | none => simp [hd, hr] at h
      | some ms =>
        simp [hd, hr] at h; subst h
        intro n hn
        rcases List.mem_cons.mp hn with rfl | hn
        · exact ⟨p, by simp, hd⟩
        · obtain ⟨q, hq, hdq⟩ := ih ms hr n hn
          exact ⟨q, by simp [hq], hdq⟩

/-- what a torn region may contain without harm: every payload the framing cuts out of it is either
rejected by `decodeEntry` / the parsers, or decodes to a no-op mutation -/
def TornHarmless (c : Codec) (g : Bytes) : Prop :=
  ∀ ps, load g = some ps → ∀ q ∈ ps, ∀ m, decodePayload c q = some m → Noop m

/-- the CRC hypothesis: every payload cut out of the torn region that still parses as a version-1 entry
WITH data fails the checksum comparison (CRC-64 detects the damage). An entry without data has
checksum 0 = crc(empty) and passes, but carries the zero mutation. -/
def TornDetected (c : Codec) (g : Bytes) : Prop :=
  ∀ ps, load g = some ps → ∀ q ∈ ps, ∀ e, c.parseEntry q = some e → e.version = logV1 → e.data ≠ [] →
    c.crc e.data ≠ e.checksum

theorem torn_detected_harmless (c : Codec) (g : Bytes) (hempty : ∀ m, c.parseMut [] = some m → m = {})
    (h : TornDetected c g) : TornHarmless c g := by
  intro ps hps q hq m hm
  unfold decodePayload at hm
  cases he : c.parseEntry q with
  | none => simp [he] at hm
  | some e =>
    simp only [he] at hm
    obtain ⟨h1, h2⟩ := accepted_entry_checksummed c e m hm
    by_cases hd : e.data = []
    · have : c.parseMut [] = some m := by
        unfold decodeEntry at hm
        simp [h1, h2, hd] at hm
        exact hm.2
      rw [hempty m this]; exact noop_zero
    · exact absurd h1 (h ps hps q hq e he h2 hd)

/-- **C22, torn tail.** The first `k` frames are intact and are followed by arbitrary bytes `g` (a torn
write of the remaining entries: partly written, zero-filled, garbage). Provided whatever the framing
cuts out of `g` is rejected or a no-op (`TornHarmless`; it follows from CRC detection, see
`torn_detected_harmless`), `aof.New` fails or yields the state of a prefix of the history. -/
theorem torn_tail_safe (c : Codec) (hist : List Mutation) (es : List Bytes)
    (hes : ∀ e ∈ es, e.length < 2 ^ 64)
    (hcodec : decodeAll c es = some (runHist Store.init hist).log) (k : Nat) (g : Bytes)
    (hg : TornHarmless c g) :
    ErrorOrPrefixState hist (reopenBytes c (segBytes (es.take k) ++ g)) := by
  have hl := load_segBytes_append (es.take k) g (fun e he => hes e (List.mem_of_mem_take he))
  cases hlg : load g with
  | none => left; rw [hlg] at hl; simp [reopenBytes, hl]
  | some ps =>
    rw [hlg] at hl
    simp only at hl
    have hda := decodeAll_append c (es.take k) ps
    rw [decodeAll_take c es _ hcodec k] at hda
    cases hdp : decodeAll c ps with
    | none => left; rw [hdp] at hda; simp [reopenBytes, hl, hda]
    | some ns =>
      rw [hdp] at hda
      simp only at hda
      have hno : ∀ n ∈ ns, Noop n := by
        intro n hn
        obtain ⟨q, hq, hdq⟩ := decodeAll_mem c ps ns hdp n hn
        exact hg ps hlg q hq n hdq
      obtain ⟨p, hp, hrep⟩ := prefix_log_state hist k
      have hrep' : replay ((runHist Store.init hist).log.take k ++ ns) =
          .ok (specState Mem.empty (hist.take p)) := by
        unfold replay at hrep ⊢
        rw [replayG_reset_append_list, hrep]
        exact replay_noops _ ns hno
      right
      refine ⟨{ log := (runHist Store.init hist).log.take k ++ ns, mem := specState Mem.empty (hist.take p),
                counter := ((runHist Store.init hist).log.take k ++ ns).length + 1 }, p, ?_, hp, rfl⟩
      simp [reopenBytes, hl, hda, reopenLog, hrep']

/-- the same with the CRC hypothesis spelled out -/
theorem torn_tail_safe_crc (c : Codec) (hist : List Mutation) (es : List Bytes)
    (hes : ∀ e ∈ es, e.length < 2 ^ 64)
    (hcodec : decodeAll c es = some (runHist Store.init hist).log) (k : Nat) (g : Bytes)
    (hempty : ∀ m, c.parseMut [] = some m → m = {}) (hcrc : TornDetected c g) :
    ErrorOrPrefixState hist (reopenBytes c (segBytes (es.take k) ++ g)) :=
  torn_tail_safe c hist es hes hcodec k g (torn_detected_harmless c g hempty hcrc)

/-! ### A lost entry in the middle of the log -/

theorem decodeAll_reject_mem (c : Codec) : ∀ (ps : List Bytes) (q : Bytes), q ∈ ps → decodePayload c q = none →
    decodeAll c ps = none := by
  intro ps
  induction ps with
  | nil => intro q hq; simp at hq
  | cons p ps ih =>
    intro q hq hr
    simp only [decodeAll]
    rcases List.mem_cons.mp hq with rfl | hq'
    · rw [hr]
    · rw [ih q hq' hr]; cases decodePayload c p <;> rfl

/-- **C22, entry lost in the middle.** The frames `a` before and `b` after a damaged region are intact (the
pages holding them reached the disk, the ones in between did not). If the region is cut into frames `zs` of
which at least one is rejected by `decodeEntry`, `aof.New` fails: the later entries are never replayed on
top of a hole. -/
theorem lost_middle_rejected (c : Codec) (a zs b : List Bytes)
    (ha : ∀ e ∈ a, e.length < 2 ^ 64) (hz : ∀ e ∈ zs, e.length < 2 ^ 64) (hb : ∀ e ∈ b, e.length < 2 ^ 64)
    (q : Bytes) (hq : q ∈ zs) (hrej : decodePayload c q = none) :
    reopenBytes c (segBytes a ++ segBytes zs ++ segBytes b) = none := by
  have hs : segBytes a ++ segBytes zs ++ segBytes b = segBytes (a ++ zs ++ b) := by
    simp [segBytes, List.flatMap_append]
  have hl : load (segBytes (a ++ zs ++ b)) = some (a ++ zs ++ b) :=
    load_segBytes _ (by
      intro e he
      simp only [List.mem_append] at he
      rcases he with (he | he) | he
      · exact ha e he
      · exact hz e he
      · exact hb e he)
  have hd : decodeAll c (a ++ zs ++ b) = none :=
    decodeAll_reject_mem c _ q (by simp [hq]) hrej
  rw [hs]; unfold reopenBytes; rw [hl]; simp only; rw [hd]

theorem segBytes_replicate_nil (n : Nat) : segBytes (List.replicate n []) = List.replicate n 0 := by
  induction n with
  | zero => rfl
  | succ n ih =>
    have : segBytes (List.replicate (n + 1) []) = frame [] ++ segBytes (List.replicate n []) := by
      simp [segBytes, List.replicate_succ]
    rw [this, ih]
    simp [frame, putUvarint_lt, List.replicate_succ]

/-- **C22, zero-filled hole.** One or more whole entries read back as `n > 0` zero bytes while the entries
after them are intact: every zero byte is an empty frame, and as long as `decodeEntry` rejects the empty
payload (version 0 is not V1) the open fails. -/
theorem zero_hole_rejected (c : Codec) (a b : List Bytes)
    (ha : ∀ e ∈ a, e.length < 2 ^ 64) (hb : ∀ e ∈ b, e.length < 2 ^ 64)
    (hempty : decodePayload c [] = none) (n : Nat) (hn : 0 < n) :
    reopenBytes c (segBytes a ++ List.replicate n 0 ++ segBytes b) = none := by
  rw [← segBytes_replicate_nil]
  refine lost_middle_rejected c a (List.replicate n []) b ha ?_ hb [] ?_ hempty
  · intro e he; rw [List.eq_of_mem_replicate he]; simp
  · cases n with
    | zero => omega
    | succ n => simp [List.replicate_succ]

/-- the executable codec of the correspondence driver (protobuf `LogEntry` parse, CRC-64, version switch)
rejects the empty payload, whatever the mutation table -/
theorem tableCodec_rejects_empty (t : List (Bytes × Mutation)) : decodePayload (tableCodec t) [] = none := by
  simp [decodePayload, tableCodec, parseLogEntry, parseLogEntryAux, decodeEntry, logV1]

/-! ### Non-vacuity -/

/-- a toy codec: payload = version, checksum, then the data; data = key bytes of a Put -/
def toyCodec : Codec where
  parseEntry p := match p with
    | v :: ck :: d => some { version := v, data := d, checksum := ck }
    | _ => none
  crc d := d.sum % 251
  parseMut d := if d = [] then some {} else some { type := tPut, key := d, value := [1] }

def toyHist : List Mutation :=
  [{ type := tPut, key := [5, 6], value := [1] }, { type := tPut, key := [7], value := [1] }]

def toyPayloads : List Bytes := [[1, 11, 5, 6], [1, 7, 7]]

example : decodeAll toyCodec toyPayloads = some (runHist Store.init toyHist).log := by decide
example : ∀ e ∈ toyPayloads, e.length < 2 ^ 64 := by decide
example : segBytes toyPayloads = [4, 1, 11, 5, 6, 3, 1, 7, 7] := by
  simp [segBytes, toyPayloads, frame, putUvarint_lt]
-- a cut inside a frame is rejected, a complete frame is read
example : load [3, 1] = none := by rw [load]; simp [uvarint, uvarintAux]
example : load [1, 9] = some [[9]] := by rw [load]; simp [uvarint, uvarintAux, load_nil]
-- the all-zero torn tail: every zero byte is an empty frame, an empty entry has version 0 ≠ V1
example : TornDetected toyCodec [0, 0] := by
  intro ps hps q hq e he hv _
  have h0 : load [0, 0] = some [[], []] := by
    have := load_segBytes [[], []] (by decide)
    simpa [segBytes, frame, putUvarint_lt] using this
  rw [h0] at hps
  injection hps with hps; subst hps
  simp at hq; subst hq
  simp [toyCodec] at he
example : putUvarint 300 = [172, 2] ∧ uvarint [172, 2, 9] = some (300, 2) ∧ uvarint [172] = none := by
  refine ⟨by rw [putUvarint_ge _ (by decide), putUvarint_lt _ (by decide)], by decide, by decide⟩

end Specter.Aof
