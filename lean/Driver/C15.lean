import SpecterModel.C15.Drv

def main : IO Unit := Specter.C15.main
