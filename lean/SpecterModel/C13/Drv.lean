import SpecterModel.Util
import SpecterModel.C13.Model
/-!
C13 line-protocol driver.

Sequential ops (exact differential against the word-level model assembled from the generated packing):
  new <s0>                => <word> <h0,h1,…>
  tr <exp> <nxt>          => <got> <ok> <word> <hist>
  set <v>                 => <word> <hist>
  get                     => <state>
Concurrent round (validation against the property statement; starts and ends quiescent):
  round <op>…             => <res>… ; <word> <hist> <get> ; <obs>…
     op  = t:<exp>:<nxt> | s:<val>       res = <got>:<ok> | -
     obs = <word>/<i>=<v>,<i>=<v>…       (mid-round snapshots of the word and of the history map)
-/
namespace Specter.C13
open Specter.Util

def natList? (s : String) : Option (List Nat) :=
  if s = "-" then some [] else (s.splitOn ",").mapM (·.toNat?)

def renderHist (h : List Nat) : String :=
  if h.isEmpty then "-" else ",".intercalate (h.map toString)

def parseOps (ops res : List String) : Option (List Op) :=
  if ops.length ≠ res.length then none else
  (ops.zip res).mapM fun (o, r) =>
    match o.splitOn ":", r.splitOn ":" with
    | ["t", e, n], [g, ok] =>
      match e.toNat?, n.toNat?, g.toNat?, parseBool ok with
      | some e, some n, some g, some ok => some (Op.tr e n g ok)
      | _, _, _, _ => none
    | ["s", v], ["-"] => v.toNat?.map Op.set
    | _, _ => none

/-- a mid-round observation is consistent with the final history (`history_sound`, `ghost_matches_word`) -/
def checkObs (final : List Nat) (o : String) : Option String :=
  match o.splitOn "/" with
  | [w, kvs] =>
    match w.toNat? with
    | none => some "BAD"
    | some w =>
      let idx := w / 16
      let st := w % 16
      if final[idx]? ≠ some st then some s!"observed word ({idx},{st}) is not the recorded transition {idx}"
      else
        let bad := (if kvs = "-" then [] else kvs.splitOn ",").any fun kv =>
          match kv.splitOn "=" with
          | [i, v] => match i.toNat?, v.toNat? with
            | some i, some v => final[i]? ≠ some v || i > idx
            | _, _ => true
          | _ => true
        if bad then some "observed history entry differs from the recorded transition of that index" else none
  | _ => some "BAD"

def step (s : Seq) (toks : List String) (rhs : String) : Seq × Verdict :=
  let r := (rhs.splitOn " ").filter (· ≠ "")
  match toks with
  | ["reset"] => (Seq.new 0, .ok)
  | ["new", s0] =>
    match s0.toNat? with
    | some s0 =>
      let m := Seq.new s0
      let out := s!"{m.word.toNat} {renderHist (history m)}"
      (m, if out = rhs then .ok else .diff out)
    | none => (s, .bad "new args")
  | ["tr", e, n] =>
    match e.toNat?, n.toNat? with
    | some e, some n =>
      let cur := s.get
      let (m, got, ok) := s.transition e n
      let out := s!"{got} {boolStr ok} {m.word.toNat} {renderHist (history m)}"
      -- spec (statement): succeeds iff the current state is the expected one; the reported state is the last recorded
      match r with
      | [g, okS, _, h] =>
        match g.toNat?, parseBool okS, natList? h with
        | some g, some okI, some hI =>
          if okI ≠ decide (cur = e) then (m, .spec s!"transition from {cur} expecting {e} must {if cur = e then "succeed" else "fail"}")
          else if okI ∧ hI ≠ history s ++ [n] then (m, .spec "successful transition not appended to the history")
          else if ¬ okI ∧ (hI ≠ history s ∨ g ≠ cur) then (m, .spec "failed transition changed the history or misreported the state")
          else (m, if out = rhs then .ok else .diff out)
        | _, _, _ => (s, .bad "tr rhs")
      | _ => (s, .bad "tr rhs")
    | _, _ => (s, .bad "tr args")
  | ["set", v] =>
    if rhs = "hang" then (s, .spec "Set did not terminate although no other goroutine interferes") else
    match v.toNat? with
    | some v =>
      match s.set v with
      | some m =>
        let out := s!"{m.word.toNat} {renderHist (history m)}"
        match r with
        | [_, h] =>
          if natList? h ≠ some (history s ++ [v]) then (m, .spec "Set not appended to the history")
          else (m, if out = rhs then .ok else .diff out)
        | _ => (s, .bad "set rhs")
      | none => (s, .diff "model Set would spin")
    | none => (s, .bad "set args")
  | ["get"] =>
    let out := toString s.get
    if some rhs ≠ (history s).getLast?.map toString then (s, .spec "Get() is not the last recorded state")
    else (s, if out = rhs then .ok else .diff out)
  | "round" :: ops =>
    if rhs = "hang" then (s, .spec "a round of Transition/Set calls did not terminate") else
    match rhs.splitOn " ; " with
    | [res, fin, obs] =>
      let resT := (res.splitOn " ").filter (· ≠ "")
      match parseOps ops resT, (fin.splitOn " ").filter (· ≠ "") with
      | some opl, [w, h, g] =>
        match w.toNat?, natList? h, g.toNat? with
        | some w, some h, some g =>
          let before := history s
          -- the model continues from the observed quiescent state
          let m : Seq := { word := BitVec.ofNat 64 w, hist := (List.range h.length).zip h }
          match checkRound before opl h g with
          | some why => (m, .spec why)
          | none =>
            match ((obs.splitOn " ").filter (fun o => o ≠ "" ∧ o ≠ "-")).findSome? (checkObs h) with
            | some "BAD" => (m, .bad "obs")
            | some why => (m, .spec why)
            | none =>
              -- packing: the final word must be pack(#transitions, last state) as computed by the model
              let want := (h.length - 1) * 16 + h.getLastD 0
              if w ≠ want then (m, .diff s!"word {want}") else (m, .ok)
        | _, _, _ => (s, .bad "round final")
      | _, _ => (s, .bad "round ops/results")
    | _ => (s, .bad "round rhs")
  | _ => (s, .bad "unknown op")

def main : IO Unit := runLoop (Seq.new 0) step

end Specter.C13
