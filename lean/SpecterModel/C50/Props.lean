import SpecterModel.C50.Model
/-!
# C50 — Clients use at most three gateways, fastest measured first

The model sorts with core's `List.mergeSort`, which is proved stable; since the comparator is a total
preorder (`le_total`, `le_trans`), *the* stable sort of a list is unique, so any stable sort
(`sort.SliceStable` — library hypothesis, validated differentially on every run) produces this list.
-/
namespace Specter.C50

variable (look : Node → Option Int)

/-- the comparator is a strict weak order: its negation-flip `le` is total … -/
theorem le_total (a b : Node) : (le look a b || le look b a) = true := by
  unfold le less
  cases look a <;> cases look b <;> simp
  omega

/-- … and transitive -/
theorem le_trans (a b c : Node) (h1 : le look a b = true) (h2 : le look b c = true) : le look a c = true := by
  unfold le less at *
  cases ha : look a <;> cases hb : look b <;> cases hc : look c <;> simp [ha, hb, hc] at h1 h2 ⊢
  omega

theorem less_irrefl (a : Node) : less look a a = false := by
  unfold less; cases look a <;> simp

/-- C50 `at_most_three`: the client uses at most three gateways. -/
theorem at_most_three (conns : List Node) (rec : Bool) : (connected conns rec look).length ≤ 3 := by
  unfold connected
  have : (firstThree conns).length ≤ 3 := by simp [firstThree, numRedundantLinks]; omega
  split
  · exact this
  · rw [List.length_mergeSort]; exact this

/-- C50 `perm_first_three`: the gateways used are exactly the first three connections in map order. -/
theorem perm_first_three (conns : List Node) (rec : Bool) :
    (connected conns rec look).Perm ((byKey conns).take 3) ∧ (byKey conns).Perm conns := by
  refine ⟨?_, List.mergeSort_perm _ _⟩
  unfold connected
  split
  · exact List.Perm.refl _
  · exact List.mergeSort_perm _ _

/-- what `le` means -/
theorem le_iff (a b : Node) : le look a b = true ↔
    match look a, look b with
    | some l, some r => l ≤ r
    | some _, none => True
    | none, some _ => False
    | none, none => True := by
  unfold le less
  cases look a <;> cases look b <;> simp

/-- C50 `measured_first_ascending`: with a recorder, for any two positions i < j of the result: if the later node
has a recent measurement then so has the earlier one and its average is not larger — i.e. all measured nodes
come first, in ascending order of average round-trip time, and unmeasured ones after them. -/
theorem measured_first_ascending (conns : List Node) :
    (connected conns true look).Pairwise (fun a b =>
      match look a, look b with
      | some l, some r => l ≤ r
      | some _, none => True
      | none, some _ => False
      | none, none => True) := by
  unfold connected
  simp only [Bool.not_true, Bool.false_eq_true, if_false]
  have := List.pairwise_mergeSort (le_trans look) (le_total look) (firstThree conns)
  exact this.imp (fun {a b} h => (le_iff look a b).mp h)

/-- C50 `ties_keep_map_order`: two nodes that the comparator does not order strictly the other way round
(equal averages, or both unmeasured, or already in order) keep their map order. -/
theorem ties_keep_map_order (conns : List Node) (a b : Node)
    (hab : [a, b].Sublist (firstThree conns)) (hle : less look b a = false) :
    [a, b].Sublist (connected conns true look) := by
  unfold connected
  simp only [Bool.not_true, Bool.false_eq_true, if_false]
  exact List.pair_sublist_mergeSort (le_trans look) (le_total look) (by simp [le, hle]) hab

/-- C50 `no_recorder_map_order`: without a recorder the first three connections are returned in map order. -/
theorem no_recorder_map_order (conns : List Node) : connected conns false look = (byKey conns).take 3 := by
  simp [connected, firstThree, numRedundantLinks]

/-- map order: keys ascending -/
theorem byKey_sorted (conns : List Node) : (byKey conns).Pairwise (fun a b => a.key ≤ b.key) := by
  have := List.pairwise_mergeSort (le := fun (a b : Node) => decide (a.key ≤ b.key))
    (by intro a b c h1 h2; simp at *; exact String.le_trans h1 h2)
    (by intro a b; simp; exact String.le_total _ _) conns
  exact this.imp (fun {a b} h => by simpa using h)

/-! ### the recorder: what `RecordLatency` retains and when a key counts as measured -/

/-- the last `cap + 1` elements -/
def lastN (cap : Nat) (l : List Sample) : List Sample := l.drop (l.length - (cap + 1))

def accepted (ss : List Sample) : List Sample := ss.filter (fun s => decide (0 ≤ s.val))

theorem foldl_record (cap : Nat) (ss f : List Sample) (hf : accepted f = f) :
    ss.foldl (record cap) (lastN cap f) = lastN cap (f ++ accepted ss) := by
  induction ss generalizing f with
  | nil => simp [accepted]
  | cons s ss ih =>
    simp only [List.foldl_cons]
    by_cases hs : s.val < 0
    · have : accepted (s :: ss) = accepted ss := by
        simp [accepted, List.filter_cons]; omega
      rw [this]
      simp only [record, hs, if_true]
      exact ih f hf
    · have hacc : accepted (s :: ss) = s :: accepted ss := by
        simp [accepted, List.filter_cons]; omega
      have hstep : record cap (lastN cap f) s = lastN cap (f ++ [s]) := by
        simp only [record, hs, if_false, lastN, List.length_drop, List.length_append, List.length_cons,
          List.length_nil]
        by_cases hl : f.length ≤ cap
        · have h1 : f.length - (cap + 1) = 0 := by omega
          have h2 : f.length + (0 + 1) - (cap + 1) = 0 := by omega
          have h3 : ¬ (f.length - 0 > cap) := by omega
          simp [h1, h2]
          intro h; omega
        · have h3 : f.length - (f.length - (cap + 1)) > cap := by omega
          rw [if_pos h3, List.drop_drop]
          have h4 : f.length + (0 + 1) - (cap + 1) ≤ f.length := by omega
          rw [List.drop_append_of_le_length h4]
          congr 2
          omega
      rw [hstep, hacc]
      have hf' : accepted (f ++ [s]) = f ++ [s] := by
        have : 0 ≤ s.val := by omega
        simp only [accepted, List.filter_append] at hf ⊢
        rw [hf]; simp [this]
      have := ih (f ++ [s]) hf'
      simpa [List.append_assoc] using this

/-- C50 `retained_last_samples`: after any sequence of `RecordLatency` calls the recorder holds exactly the last
`cap + 1` accepted (non-negative) samples, each with the time of ITS OWN recording. -/
theorem retained_last_samples (cap : Nat) (ss : List Sample) :
    recordAll cap ss = lastN cap (accepted ss) := by
  have := foldl_record cap ss [] rfl
  simpa [recordAll, lastN] using this

theorem snapAvg_isSome (data : List Sample) :
    (snapAvg data).isSome = data.any (fun p => decide (p.age ≤ windowMs)) := by
  unfold snapAvg
  simp only
  split
  · next h =>
    simp only [List.isEmpty_iff, List.map_eq_nil_iff, List.filter_eq_nil_iff] at h
    simp only [Option.isSome_none]
    symm
    rw [Bool.eq_false_iff]
    intro hany
    obtain ⟨x, hx, hd⟩ := List.any_eq_true.mp hany
    exact h x hx hd
  · next h =>
    simp only [List.isEmpty_iff, List.map_eq_nil_iff, List.filter_eq_nil_iff] at h
    simp only [Option.isSome_some]
    symm
    rw [List.any_eq_true]
    exact Classical.byContradiction fun hc => h (fun x hx hd => hc ⟨x, hx, hd⟩)

/-- C50 `latest_sample_measured`: a key whose most recent accepted sample was recorded within the window is
measured — however many samples were recorded before it (the window never "freezes"). -/
theorem latest_sample_measured (cap : Nat) (ss : List Sample) (s : Sample)
    (hlast : (accepted ss).getLast? = some s) (hrecent : s.age ≤ windowMs) :
    (snapAvg (recordAll cap ss)).isSome = true := by
  rw [snapAvg_isSome, retained_last_samples, List.any_eq_true]
  refine ⟨s, ?_, by simpa using hrecent⟩
  have hne : accepted ss ≠ [] := by intro h; rw [h] at hlast; cases hlast
  have hmem : (lastN cap (accepted ss)).getLast? = some s := by
    unfold lastN
    rw [List.getLast?_drop]
    have : ¬ (accepted ss).length ≤ (accepted ss).length - (cap + 1) := by
      have := List.length_pos_iff.mpr hne; omega
    simp [this, hlast]
  exact List.mem_of_getLast? hmem

/-- ages non-increasing in recording order: time only moves forward -/
def Chrono (l : List Sample) : Prop := l.Pairwise (fun a b => b.age ≤ a.age)

/-- C50 `measured_iff_recent_sample`: when samples are recorded as time passes, a key is measured (its snapshot
is non-nil) if and only if SOME accepted sample was recorded within the last 10 s. -/
theorem measured_iff_recent_sample (cap : Nat) (ss : List Sample) (hc : Chrono (accepted ss)) :
    (snapAvg (recordAll cap ss)).isSome = true ↔ ∃ s ∈ ss, 0 ≤ s.val ∧ s.age ≤ windowMs := by
  constructor
  · intro h
    rw [snapAvg_isSome, retained_last_samples, List.any_eq_true] at h
    obtain ⟨x, hx, hd⟩ := h
    have hx' : x ∈ accepted ss := List.mem_of_mem_drop hx
    have := List.mem_filter.mp hx'
    exact ⟨x, this.1, by simpa using this.2, by simpa using hd⟩
  · rintro ⟨s, hs, hv, ha⟩
    have hmem : s ∈ accepted ss := List.mem_filter.mpr ⟨hs, by simpa using hv⟩
    have hne : accepted ss ≠ [] := List.ne_nil_of_mem hmem
    obtain ⟨t, ht⟩ : ∃ t, (accepted ss).getLast? = some t :=
      ⟨(accepted ss).getLast hne, List.getLast?_eq_some_getLast hne⟩
    refine latest_sample_measured cap ss t ht ?_
    -- the last sample is at least as recent as `s`
    obtain ⟨ys, hsplit⟩ := List.getLast?_eq_some_iff.mp ht
    rw [hsplit] at hmem hc
    rcases List.mem_append.mp hmem with h1 | h1
    · have := (List.pairwise_append.mp hc).2.2 s h1 t (by simp)
      omega
    · simp at h1; subst h1; exact ha

/-- C50 `snapshot_window`: a key contributes an average only if it has an accepted sample recorded within the
last 10 s, and then the average is that of the retained recent samples. -/
theorem snapshot_window (tab : List Entry) (k : String) (v : Int) (h : snapshot tab k = some v) :
    ∃ e ∈ tab, e.mkey = k ∧ (∃ s ∈ e.samples, 0 ≤ s.val ∧ s.age ≤ 10000) ∧
      snapAvg (lastN capacity (accepted e.samples)) = some v := by
  unfold snapshot at h
  cases hf : tab.find? (·.mkey == k) with
  | none => rw [hf] at h; cases h
  | some e =>
    rw [hf] at h; simp only at h
    refine ⟨e, List.mem_of_find?_eq_some hf, ?_, ?_, ?_⟩
    · have := List.find?_some hf; simpa using this
    · have hs : (snapAvg (recordAll capacity e.samples)).isSome = true := by rw [h]; rfl
      rw [snapAvg_isSome, retained_last_samples, List.any_eq_true] at hs
      obtain ⟨x, hx, hd⟩ := hs
      have := List.mem_filter.mp (List.mem_of_mem_drop hx)
      exact ⟨x, this.1, by simpa using this.2, by simpa [windowMs] using of_decide_eq_true hd⟩
    · rw [← retained_last_samples]; exact h

/-! ### non-vacuity -/
section NonVacuity
def n1 : Node := ⟨1, "a", "10.0.0.1:1", false⟩
def n2 : Node := ⟨2, "b", "10.0.0.2:1", false⟩
def n3 : Node := ⟨3, "c", "10.0.0.3:1", true⟩
def n4 : Node := ⟨4, "d", "10.0.0.4:1", false⟩
def tab : List Entry := [⟨"10.0.0.1:1/PHY", [⟨20000, 50⟩, ⟨100, 5⟩], some 5⟩, ⟨"10.0.0.2:1/PHY", [⟨3000, 9⟩], some 9⟩,
  ⟨"10.0.0.3:1/-1", [⟨20000, 7⟩], none⟩, ⟨"10.0.0.4:1/PHY", [⟨1, 1⟩], some 1⟩]
def lk (n : Node) : Option Int := snapshot tab (mkey n)
-- n3's only point is stale: unmeasured although the table holds an average
example : lk n1 = some 5 ∧ lk n2 = some 9 ∧ lk n3 = none ∧ lk n4 = some 1 := by decide
theorem ex_byKey : byKey [n1, n2, n3, n4] = [n1, n2, n3, n4] := List.mergeSort_of_pairwise (by decide)
theorem ex_first : firstThree [n1, n2, n3, n4] = [n1, n2, n3] := by simp [firstThree, ex_byKey, numRedundantLinks]
-- n4 (fastest) is cut off because it is fourth in map order; measured n1 (5), n2 (9) precede unmeasured n3
example : connected [n1, n2, n3, n4] true lk = [n1, n2, n3] := by
  simp only [connected, ex_first, Bool.not_true, Bool.false_eq_true, if_false]
  exact List.mergeSort_of_pairwise (by decide)
/-- hypotheses of `ties_keep_map_order` are satisfiable -/
example : [n1, n2].Sublist (firstThree [n1, n2, n3, n4]) ∧ less lk n2 n1 = false := by
  rw [ex_first]; decide
/-- a long-lived key: 30 old samples (value 50), then 3 recent ones (value 7): more than the 21 retained points;
it is measured, with the average of the recent samples only -/
def longLived : List Sample := (List.replicate 30 ⟨30000, 50⟩) ++ [⟨1, -4⟩] ++ List.replicate 3 ⟨100, 7⟩
example : snapAvg (recordAll capacity longLived) = some 7 := by decide +kernel
example : (recordAll capacity longLived).length = 21 := by decide +kernel
/-- hypotheses of `latest_sample_measured` / `measured_iff_recent_sample` are satisfiable -/
example : Chrono (accepted longLived) ∧ (accepted longLived).getLast? = some ⟨100, 7⟩ := by
  refine ⟨?_, by decide +kernel⟩
  unfold Chrono; decide +kernel
end NonVacuity

end Specter.C50
