package main

import (
	"fmt"
	"os"
)

func main() {
	if len(os.Args) < 2 {
		fmt.Fprintln(os.Stderr, "usage: extract <cmd> args...")
		os.Exit(2)
	}
	switch os.Args[1] {
	case "go2lean":
		runGo2Lean(os.Args[2:])
	default:
		if f, ok := factCmds[os.Args[1]]; ok {
			f(os.Args[2:])
			return
		}
		fmt.Fprintln(os.Stderr, "unknown command", os.Args[1])
		os.Exit(2)
	}
}

var factCmds = map[string]func([]string){}
