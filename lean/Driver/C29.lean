import SpecterModel.C29.Drv

def main : IO Unit := Specter.C29.main
