//go:build verif

package hashcash

// VerifVerifyBits exposes the unexported bit test to the C31 correspondence harness.
func VerifVerifyBits(hash []byte, bits, n int) bool { return verifyBits(hash, bits, n) }
