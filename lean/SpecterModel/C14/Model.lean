import SpecterModel.C14.Gen
/-!
# C14 model — chord errors across RPC (spec/chord/errors.go, spec/rpc/error.go, chord/server_rpc.go, chord/remote.go)

Parametric in the registry (`List Entry`); `Props.lean` instantiates it with the GENERATED `Gen.C14.registry`.

origin error value  --rpc.WrapError*-->  twirp error (code, msg)  --wire-->  client twirp error (code, msg; the Go
identity of the cause is gone)  --chord.ErrorMapper-->  caller's error value  --chord.ErrorIsRetryable-->  Bool
-/
namespace Specter.C14

/-- one `errorDef`: (variable name, message, retryable) -/
abbrev Entry := String × String × Bool
def Entry.name (e : Entry) : String := e.1
def Entry.msg (e : Entry) : String := e.2.1
def Entry.retryable (e : Entry) : Bool := e.2.2

/-- Go error values, up to what `errors.Is`, `Error()` and the twirp client can observe -/
inductive GoErr where
  | reg (e : Entry)                       -- the registry variable itself (pointer identity)
  | deadline                              -- context.DeadlineExceeded
  | opaque (msg : String)                 -- any other error, `Error() = msg`, unwraps to nothing
  | wrap (msg : String) (inner : GoErr)   -- fmt.Errorf("…%w", inner) with `Error() = msg`
  | twirp (code msg : String)             -- a twirp error as decoded by the client (no cause)
  deriving DecidableEq, Repr

def deadlineMsg : String := "context deadline exceeded"

/-- `Error()` -/
def GoErr.msg : GoErr → String
  | .reg e => e.msg
  | .deadline => deadlineMsg
  | .opaque m => m
  | .wrap m _ => m
  | .twirp c m => "twirp error " ++ c ++ ": " ++ m

/-- `ErrorIsRetryable`: some element of `retryableErrs` (= DeadlineExceeded + the retryable registry variables)
is reached by `errors.Is` (identity along the unwrap chain) -/
def retryable (reg : List Entry) : GoErr → Bool
  | .reg e => reg.contains e && e.retryable
  | .deadline => true
  | .opaque _ => false
  | .wrap _ inner => retryable reg inner
  | .twirp _ _ => false

structure Wire where
  code : String
  msg : String
  deriving DecidableEq, Repr

/-- `rpc.WrapError` / `rpc.WrapErrorKV` (same code selection), or a raw return (twirp then wraps any
non-twirp error as `internal`) -/
def wrapErr (reg : List Entry) (how : String) (x : GoErr) : Wire :=
  if how = "raw" then { code := "internal", msg := x.msg }
  else { code := if retryable reg x then "failed_precondition" else "internal", msg := x.msg }

/-- `ErrorMapper` on the client's twirp error: `errorStrMap[Msg()]`, a Go map filled in registry order
(a later definition with the same message overwrites an earlier one) -/
def mapper (reg : List Entry) (w : Wire) : GoErr :=
  match reg.reverse.find? (fun e => e.msg == w.msg) with
  | some e => .reg e
  | none => .twirp w.code w.msg

/-- what the remote caller ends up with -/
def acrossRPC (reg : List Entry) (how : String) (x : GoErr) : GoErr := mapper reg (wrapErr reg how x)

def howOf (handlers : List (String × String)) (method : String) : String := (handlers.lookup method).getD "WrapError"

end Specter.C14
