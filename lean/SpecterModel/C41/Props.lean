import SpecterModel.C41.Model
/-!
# C41 — simultaneous peer connections and the shared cached connection

The protocol model of `Model.lean` instantiated with the decision table GENERATED from `overlay/reuse.go`
(`Gen.lean`). All theorems quantify over ALL lists of step labels (`run` skips labels that are not enabled), i.e.
over all interleavings of the (two or four) concurrent negotiations and the reaps, and over all consistent
pre-existing cache states `preStates`. They are proved by an exhaustive exploration evaluated by the kernel
(`explore … = true` by `decide`) and lifted to arbitrary schedules by `explore_sound`.

RESULT. `no_split_brain` and `cache_new_only_if_peer_does` hold in every final state. "A reused connection is
never closed by the negotiation" holds for a single dial (`reused_never_closed_single`), and for a
simultaneous open whenever one side already holds a cached connection (`reused_never_closed_cached`), but NOT
for a simultaneous open from empty caches: `simultaneous_open_counterexample` is a schedule of the generated
table in which each peer stores its own outgoing connection and closes the other one while the other peer hands
exactly that connection back as "reused". `reused_never_closed_unless_cross` shows that this cross store is the
ONLY way the property fails.
-/
namespace Specter.C41
open Gen.C41

section force
variable {α : Type}
theorem fB_eq (b : Bool) (k : Bool → α) : fB b k = k b := by cases b <;> rfl
theorem fDir_eq (d : Dir) (k : Dir → α) : fDir d k = k d := by cases d <;> rfl
theorem fCState_eq (cs : CState) (k : CState → α) : fCState cs k = k cs := by cases cs <;> rfl
theorem fConn_eq (x : Conn) (k : Conn → α) : fConn x k = k x := by cases x <;> rfl
theorem fEntry_eq (e : Entry) (k : Entry → α) : fEntry e k = k e := by
  cases e with
  | none => rfl
  | some p => obtain ⟨x, d⟩ := p; simp [fEntry, fConn_eq, fDir_eq]
theorem fStatus_eq (p : CState × Dir) (k : CState × Dir → α) : fStatus p k = k p := by
  obtain ⟨a, b⟩ := p; simp [fStatus, fCState_eq, fDir_eq]
theorem fRes_eq (r : Res) (k : Res → α) : fRes r k = k r := by
  cases r with
  | reused x => cases x <;> simp [fRes, fConn_eq]
  | fresh => rfl
  | err => rfl
theorem fPC_eq (p : PC) (k : PC → α) : fPC p k = k p := by
  cases p <;> simp [fPC, fEntry_eq, fStatus_eq, fRes_eq, fB_eq]
theorem fSt_eq (s : St) (k : St → α) : fSt s k = k s := by
  simp [fSt, fB_eq, fEntry_eq, fPC_eq]
end force

theorem mem_allSteps (e : Step) : e ∈ allSteps := by
  cases e <;> rename_i i <;> cases i <;> decide

/-- **Lifting lemma.** If the exhaustive exploration from `s` succeeds, then for EVERY list of step labels the
run from `s` that ends in a final state satisfies `prop`. -/
theorem explore_sound (T : Table) (prop : St → Bool) : ∀ (l : List Step) (n : Nat) (s : St),
    explore T prop n s = true → final (run T s l) = true → prop (run T s l) = true := by
  intro l
  induction l with
  | nil =>
    intro n s h hf
    simp only [run] at hf ⊢
    have hnil : allSteps.filter (enabled s) = [] := by simpa [final] using hf
    cases n with
    | zero => simp [explore] at h; exact h.2
    | succ n => simp only [explore, hnil] at h; exact h
  | cons e l ih =>
    intro n s h hf
    simp only [run] at hf ⊢
    by_cases he : enabled s e = true
    · simp only [he, if_true] at hf ⊢
      have hmem : e ∈ allSteps.filter (enabled s) := List.mem_filter.mpr ⟨mem_allSteps e, he⟩
      cases n with
      | zero =>
        simp [explore, final] at h
        have := h.1 e (mem_allSteps e)
        rw [he] at this; exact absurd this (by simp)
      | succ n =>
        simp only [explore] at h
        split at h
        · rename_i hnil; rw [hnil] at hmem; exact absurd hmem (by simp)
        · have := List.all_eq_true.mp h e hmem
          rw [fSt_eq] at this
          exact ih n _ this hf
    · simp only [he, if_false, Bool.false_eq_true] at hf ⊢
      exact ih n s h hf

/-! ### the exhaustive explorations (kernel-evaluated) over the generated table -/

theorem explore_single : ∀ pre ∈ preStates, explore genTable goodStrict 12 (init false pre) = true := by
  decide +kernel
set_option maxRecDepth 100000 in
theorem explore_dual : ∀ pre ∈ preStates, explore genTable good 12 (init true pre) = true := by
  decide +kernel
set_option maxRecDepth 100000 in
theorem explore_dual_cached : ∀ pre ∈ preStates, pre ≠ (none, none) →
    explore genTable goodStrict 12 (init true pre) = true := by
  decide +kernel

theorem good_of (dual : Bool) (pre : Entry × Entry) (hp : pre ∈ preStates) (l : List Step)
    (hf : final (run genTable (init dual pre) l) = true) : good (run genTable (init dual pre) l) = true := by
  cases dual with
  | true => exact explore_sound _ _ l 12 _ (explore_dual pre hp) hf
  | false =>
    have := explore_sound _ _ l 12 _ (explore_single pre hp) hf
    simp only [goodStrict, Bool.and_eq_true] at this
    simp [good, this.1.1, this.1.2, this.2]

/-- **no_split_brain.** After any interleaving of one dial or of two simultaneous dials (with the reaps that
follow closed stored connections), from any consistent pre-existing cache state: if both peers cache a
connection for each other, it is the same connection. -/
theorem no_split_brain (dual : Bool) (pre : Entry × Entry) (hp : pre ∈ preStates) (l : List Step)
    (hf : final (run genTable (init dual pre) l) = true) :
    noSplitBrain (run genTable (init dual pre) l) = true := by
  have := good_of dual pre hp l hf
  simp only [good, Bool.and_eq_true] at this
  exact this.1.1

/-- **cache_new_only_if_peer_does.** In every final state a peer caches a new connection (`c` or `d`) only if
the other peer caches the same connection. -/
theorem cache_new_only_if_peer_does (dual : Bool) (pre : Entry × Entry) (hp : pre ∈ preStates) (l : List Step)
    (hf : final (run genTable (init dual pre) l) = true) :
    newOnlyIfPeer (run genTable (init dual pre) l) = true := by
  have := good_of dual pre hp l hf
  simp only [good, Bool.and_eq_true] at this
  exact this.1.2

/-- **reused_never_closed_single.** With a single dial, no connection handed back as "reused" is closed by the
negotiation. -/
theorem reused_never_closed_single (pre : Entry × Entry) (hp : pre ∈ preStates) (l : List Step)
    (hf : final (run genTable (init false pre) l) = true) :
    reusedNotClosed (run genTable (init false pre) l) = true := by
  have := explore_sound _ _ l 12 _ (explore_single pre hp) hf
  simp only [goodStrict, Bool.and_eq_true] at this
  exact this.2

/-- **reused_never_closed_cached.** With two simultaneous dials, if at least one peer already holds a cached
connection, no reused connection is closed. -/
theorem reused_never_closed_cached (pre : Entry × Entry) (hp : pre ∈ preStates) (hne : pre ≠ (none, none))
    (l : List Step) (hf : final (run genTable (init true pre) l) = true) :
    reusedNotClosed (run genTable (init true pre) l) = true := by
  have := explore_sound _ _ l 12 _ (explore_dual_cached pre hp hne) hf
  simp only [goodStrict, Bool.and_eq_true] at this
  exact this.2

/-- **reused_never_closed_unless_cross.** In general a reused connection can be closed only in a
simultaneous-open cross store (both peers stored a fresh connection, and not the same one). -/
theorem reused_never_closed_unless_cross (dual : Bool) (pre : Entry × Entry) (hp : pre ∈ preStates) (l : List Step)
    (hf : final (run genTable (init dual pre) l) = true) :
    reusedNotClosed (run genTable (init dual pre) l) = true ∨ crossStore (run genTable (init dual pre) l) = true := by
  have := good_of dual pre hp l hf
  simp only [good, Bool.and_eq_true, Bool.or_eq_true] at this
  exact this.2

/-- The violating schedule: all four ends take their snapshot (nothing cached), P's outgoing end stores `c`,
Q's outgoing end stores `d`, then P's incoming end finds `c`, closes `d` and returns `c` as reused, and Q's
incoming end finds `d`, closes `c` and returns `d` as reused. -/
def crossSchedule : List Step :=
  [.snap .Pc, .snap .Qc, .snap .Qd, .snap .Pd, .dec .Pc, .dec .Qd, .dec .Pd, .dec .Qc]

/-- **simultaneous_open_counterexample** (property "reused never closed" FAILS for the code as it is): -/
theorem simultaneous_open_counterexample :
    let s := run genTable (init true (none, none)) crossSchedule
    s.pc .Pd = .done (.fresh, .incoming) (.reused (some .c)) false ∧ s.closed .c = true ∧
    s.pc .Qc = .done (.fresh, .incoming) (.reused (some .d)) false ∧ s.closed .d = true ∧
    reusedNotClosed s = false ∧ crossStore s = true := by decide

/-! ### non-vacuity -/

/-- a single dial from empty caches converges on `c` -/
example : let s := run genTable (init false (none, none)) [.snap .Pc, .snap .Qc, .dec .Pc, .dec .Qc]
    final s = true ∧ s.cached .P = some .c ∧ s.cached .Q = some .c ∧ s.closed .c = false := by decide
/-- a simultaneous open that converges: both peers end with `c`, `d` is closed, nobody reuses a closed one -/
example : let s := run genTable (init true (none, none)) [.snap .Pc, .snap .Qc, .snap .Qd, .snap .Pd, .dec .Pc, .dec .Qc, .dec .Pd, .dec .Qd]
    final s = true ∧ s.cached .P = some .c ∧ s.cached .Q = some .c ∧ s.closed .d = true ∧
    reusedNotClosed s = true := by decide
/-- both cached the old connection: the new one is closed, the old one is reused by both and stays open -/
example : let s := run genTable (init false (some (.e, .outgoing), some (.e, .incoming))) [.snap .Pc, .snap .Qc, .dec .Qc, .dec .Pc]
    final s = true ∧ s.pc .Pc = .done (.cached, .outgoing) (.reused (some .e)) false ∧ s.closed .e = false ∧
    s.closed .c = true := by decide
/-- after the cross store both peers reap: final caches are empty (no split brain, nothing new cached) -/
example : let s := run genTable (init true (none, none)) (crossSchedule ++ [.reap .Pc, .reap .Qd])
    final s = true ∧ s.cached .P = none ∧ s.cached .Q = none := by decide

/-! ### the direction of the re-loaded entry (`rcdir`) is really threaded through the model

`decide`'s last argument is the direction of the entry that the re-load finds. The table generated from the
current source does not read it. A table that
honours the re-loaded entry only when it is an INCOMING one in the branch 'other: fresh outgoing, us: new
incoming' (and is the generated one everywhere else) loses the property: after `c` has been stored by both
peers, P's incoming end of `d` overwrites `c` (an outgoing entry) with `d`, Q's outgoing end closes `d` and keeps
`c` — the peers cache different connections, and after the reap Q caches the new connection `c` alone. -/

/-- the generated table, except that the incoming re-check only honours an incoming entry -/
def incomingOnlyTable : Table :=
  ⟨Gen.C41.snapshot, fun ps pd cached cdir dir rc rcdir =>
    match ps, pd, cached, dir, rc, rcdir with
    | .fresh, .outgoing, false, .incoming, true, .outgoing => Gen.C41.decide ps pd cached cdir dir false rcdir
    | _, _, _, _, _, _ => Gen.C41.decide ps pd cached cdir dir rc rcdir⟩

def overwriteSchedule : List Step :=
  [.snap .Pc, .snap .Qc, .snap .Qd, .snap .Pd, .dec .Pc, .dec .Qc, .dec .Qd, .dec .Pd]

example : let s := run incomingOnlyTable (init true (none, none)) overwriteSchedule
    s.cached .P = some .d ∧ s.cached .Q = some .c ∧ noSplitBrain s = false := by decide
example : let s := run incomingOnlyTable (init true (none, none)) (overwriteSchedule ++ [.reap .Pd])
    final s = true ∧ s.cached .P = none ∧ s.cached .Q = some .c ∧ s.closed .c = false ∧
    newOnlyIfPeer s = false := by decide
/-- the same schedule over the generated table converges on `c` -/
example : let s := run genTable (init true (none, none)) overwriteSchedule
    final s = true ∧ s.cached .P = some .c ∧ s.cached .Q = some .c ∧ good s = true := by decide

end Specter.C41
