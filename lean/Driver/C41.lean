import SpecterModel.C41.Drv

def main : IO Unit := Specter.C41.main
