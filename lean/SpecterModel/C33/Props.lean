import SpecterModel.C33.Model
/-!
# C33 — Hostname normalization and challenge names are canonical

* `normalize_charset`   — a successful result consists only of `a-z 0-9 - .` (whatever the libraries return)
* `normalize_idempotent` — under explicit library hypotheses (validated by the harness on every accepted name)
* `no_empty_label` — an accepted name never starts/ends with a dot or contains ".." (fix 26af3a2)
* `rejects_wildcard`, `rejects_ip`, `rejects_unqualified` — rejecting branches
* `hexEncode_injective`, `record_distinct`, `record_name_token_free` — distinct SHA-224 digests give distinct record targets
-/
namespace Specter.C33

/-- Lowercase ASCII letters, digits, hyphen, dot — and nothing else. -/
theorem normalize_charset (isIP qualifies : Runes → Bool) (toASCII : Runes → Option Runes) (z s : Runes)
    (h : normalize isIP qualifies toASCII z = .ok s) : ∀ c ∈ s, isLDH c = true := by
  unfold normalize at h
  simp only at h
  split at h; · cases h
  split at h; · cases h
  split at h; · cases h
  split at h
  · cases h
  · split at h; · cases h
    split at h
    · rename_i hall; cases h; exact List.all_eq_true.mp hall
    · cases h

/-- An accepted name has no empty label: it neither starts nor ends with a dot nor contains "..". -/
theorem no_empty_label (isIP qualifies : Runes → Bool) (toASCII : Runes → Option Runes) (z s : Runes)
    (h : normalize isIP qualifies toASCII z = .ok s) : emptyLabel s = false := by
  unfold normalize at h
  simp only at h
  split at h; · cases h
  split at h; · cases h
  split at h; · cases h
  split at h
  · cases h
  · split at h; · cases h
    rename_i he
    split at h
    · cases h; simpa using he
    · cases h

theorem ldh_not_space (c : Nat) (h : isLDH c = true) : isSpace c = false := by
  simp only [isLDH, Bool.or_eq_true, Bool.and_eq_true, decide_eq_true_eq, beq_iff_eq] at h
  simp only [isSpace, Bool.or_eq_false_iff, Bool.and_eq_false_iff, beq_eq_false_iff_ne, decide_eq_false_iff_not]
  omega

theorem ldh_not_star (s : Runes) (h : ∀ c ∈ s, isLDH c = true) : star ∉ s := fun m => by
  have := h star m; simp [isLDH, star] at this

/-- the whitespace filter leaves an LDH string untouched -/
theorem removeSpace_fix (s : Runes) (h : ∀ c ∈ s, isLDH c = true) : removeSpace s = s := by
  unfold removeSpace
  apply List.filter_eq_self.mpr
  intro c hc; simp [ldh_not_space c (h c hc)]

theorem removeSpace_idem (z : Runes) : removeSpace (removeSpace z) = removeSpace z := by
  unfold removeSpace; simp [List.filter_filter]

/-- **Idempotence.**  Library hypotheses: `hA` — `idna.ToASCII` leaves an LDH string unchanged; `hQ` — a name that qualified and
whose ASCII form is LDH still qualifies and is not an IP literal. (Both are checked by the harness on every accepted name:
the accepted output is fed back into the real `Normalize`.) -/
theorem normalize_idempotent (isIP qualifies : Runes → Bool) (toASCII : Runes → Option Runes)
    (hA : ∀ s, (∀ c ∈ s, isLDH c = true) → toASCII s = some s)
    (hQ : ∀ t s, isIP t = false → qualifies t = true → toASCII t = some s → (∀ c ∈ s, isLDH c = true) →
      isIP s = false ∧ qualifies s = true)
    (z s : Runes) (h : normalize isIP qualifies toASCII z = .ok s) :
    normalize isIP qualifies toASCII s = .ok s := by
  have hl := normalize_charset _ _ _ _ _ h
  have hne := no_empty_label _ _ _ _ _ h
  unfold normalize at h
  simp only at h
  split at h; · cases h
  rename_i hip
  split at h; · cases h
  rename_i hq
  split at h; · cases h
  split at h
  · cases h
  · rename_i uni hu
    split at h; · cases h
    split at h
    · cases h
      have := hQ (removeSpace z) s (by simpa using hip) (by simpa using hq) hu hl
      unfold normalize
      simp only [removeSpace_fix s hl, this.1, this.2, hA s hl, ldh_not_star s hl]
      simp [List.all_eq_true.mpr hl, hne]
    · cases h

theorem rejects_wildcard (isIP qualifies : Runes → Bool) (toASCII : Runes → Option Runes) (z : Runes)
    (h : star ∈ removeSpace z) : ∃ e, normalize isIP qualifies toASCII z = .error e := by
  unfold normalize; simp only
  split; · exact ⟨_, rfl⟩
  split; · exact ⟨_, rfl⟩
  first
    | exact ⟨_, rfl⟩
    | (rw [if_pos h]; exact ⟨_, rfl⟩)

/-- every IP literal (as recognised by `net.ParseIP` after removing whitespace) is rejected -/
theorem rejects_ip (isIP qualifies : Runes → Bool) (toASCII : Runes → Option Runes) (z : Runes)
    (h : isIP (removeSpace z) = true) : normalize isIP qualifies toASCII z = .error .ip := by
  unfold normalize; simp [h]

/-- local / internal names are rejected as far as certmagic recognises them (`qualifies = false`) -/
theorem rejects_unqualified (isIP qualifies : Runes → Bool) (toASCII : Runes → Option Runes) (z : Runes)
    (h : qualifies (removeSpace z) = false) : ∃ e, normalize isIP qualifies toASCII z = .error e := by
  unfold normalize; simp only
  split; · exact ⟨_, rfl⟩
  rw [if_pos (by simp [h])]; exact ⟨_, rfl⟩

/-! ## records -/

theorem hexDigit_inj : ∀ a, a < 16 → ∀ b, b < 16 → hexDigit a = hexDigit b → a = b := by decide

theorem hexEncode_injective (a b : Bytes) (ha : ∀ x ∈ a, x < 256) (hb : ∀ x ∈ b, x < 256)
    (h : hexEncode a = hexEncode b) : a = b := by
  induction a generalizing b with
  | nil => cases b with
    | nil => rfl
    | cons y ys => simp [hexEncode] at h
  | cons x xs ih =>
    cases b with
    | nil => simp [hexEncode] at h
    | cons y ys =>
      simp only [hexEncode, List.cons.injEq] at h
      have hx := ha x (by simp); have hy := hb y (by simp)
      have h1 := hexDigit_inj (x / 16) (by omega) (y / 16) (by omega) h.1
      have h2 := hexDigit_inj (x % 16) (by omega) (y % 16) (by omega) h.2.1
      have : x = y := by omega
      rw [this, ih ys (fun z hz => ha z (by simp [hz])) (fun z hz => hb z (by simp [hz])) h.2.2]

/-- **Distinct tokens give distinct challenge targets**, exactly as far as SHA-224 separates them. -/
theorem record_distinct (sha224 : Bytes → Bytes) (hs : ∀ t, ∀ x ∈ sha224 t, x < 256) (zone delegation : Runes)
    (t1 t2 : Bytes) (zfq dfq : Bool) (hne : sha224 t1 ≠ sha224 t2) :
    (customRecord sha224 zone delegation t1 zfq dfq).2 ≠ (customRecord sha224 zone delegation t2 zfq dfq).2 := by
  intro h
  have h' : (hexEncode (sha224 t1) ++ (dot :: delegation)) ++ (if dfq then [] else [dot])
      = (hexEncode (sha224 t2) ++ (dot :: delegation)) ++ (if dfq then [] else [dot]) := h
  exact hne (hexEncode_injective _ _ (hs t1) (hs t2) (List.append_cancel_right (List.append_cancel_right h')))

/-- equal targets force equal digests (contrapositive form) and the record NAME never depends on the token -/
theorem record_name_token_free (sha224 : Bytes → Bytes) (zone delegation : Runes) (t1 t2 : Bytes) (zfq dfq : Bool) :
    (customRecord sha224 zone delegation t1 zfq dfq).1 = (customRecord sha224 zone delegation t2 zfq dfq).1 := rfl

/-! ## non-vacuity -/
def exIP : Runes → Bool := fun t => t == [56, 46, 56]                 -- pretend "8.8" is an IP literal
def exQ : Runes → Bool := fun t => t != [108, 111]                     -- pretend "lo" is local
def exA : Runes → Option Runes := fun t => if t.all (· < 128) then some t else none
def resIs (r : Except NErr Runes) (want : Except NErr Runes) : Bool :=
  match r, want with
  | .ok a, .ok b => a == b
  | .error a, .error b => a == b
  | _, _ => false
example : resIs (normalize exIP exQ exA [97, 32, 98, 46, 99]) (.ok [97, 98, 46, 99]) = true := by decide   -- "a b.c" → "ab.c"
example : resIs (normalize exIP exQ exA [97, 98, 46, 99]) (.ok [97, 98, 46, 99]) = true := by decide
example : resIs (normalize exIP exQ exA [56, 46, 9, 56]) (.error .ip) = true := by decide
example : resIs (normalize exIP exQ exA [108, 111]) (.error .qualify) = true := by decide
example : resIs (normalize exIP exQ exA [42, 46, 97]) (.error .wildcard) = true := by decide
example : resIs (normalize exIP exQ exA [65, 46, 97]) (.error .chars) = true := by decide                    -- "A.a"
example : resIs (normalize exIP exQ exA [228, 46, 97]) (.error .idna) = true := by decide
example : resIs (normalize exIP exQ exA [46, 97, 46, 98]) (.error .emptyLabel) = true := by decide           -- ".a.b"
example : resIs (normalize exIP exQ exA [97, 46, 46, 98]) (.error .emptyLabel) = true := by decide           -- "a..b"
example : resIs (normalize exIP exQ exA [97, 46]) (.error .emptyLabel) = true := by decide                   -- "a." 
example : (customRecord (fun t => t) [97] [98] [1, 255] false false).2 = [48, 49, 102, 102, 46, 98, 46] := by decide
example : (customRecord (fun t => t) [97] [98] [1] false true).1 = acmePrefix ++ [97, 46] := by decide

end Specter.C33
