//go:build verif

package server

import (
	"context"
	"time"

	"go.miragespace.co/specter/spec/protocol"
	"go.miragespace.co/specter/spec/tun"
)

// VerifRouteLoad runs the real (unexported) routeCacheLoader once and flattens its result.
func VerifRouteLoad(s *Server, ctx context.Context, hostname string) (kind string, ttl time.Duration, cost int64, routes []*protocol.TunnelRoute, loadErr error) {
	ret, err := s.routeCacheLoader(ctx, hostname)
	switch {
	case err != nil:
		kind = "loaderr"
	case ret.Value.err == tun.ErrDestinationNotFound:
		kind = "notfound"
	case ret.Value.err == tun.ErrLookupFailed:
		kind = "failed"
	case ret.Value.err == nil:
		kind = "routes"
	default:
		kind = "other"
	}
	return kind, ret.TTL, ret.Cost, ret.Value.routes, err
}
